"""Reference model of RF24's configuration API, written from the nRF24L01+ register map and the
library's documentation (docs/core_api/*.rst) - not from rf24.py.

`Ref.apply(op)` returns the list of acceptable outcomes of one API call:
    [(exception class name or None, expected return value or ANY, new Ref state), ...]
For documented-domain arguments there is exactly one outcome.  Where documentation and code
disagree about an out-of-domain argument without any register becoming illegal, both documented
readings are listed (see DESIGN.md C03).
"""
import copy

ANY = object()
CFG_REGS = tuple(range(0x00, 0x07)) + tuple(range(0x0A, 0x17)) + (0x1C, 0x1D)


class Ref:
    def __init__(self, chip):
        # documented defaults after instantiation; addresses are whatever the radio holds
        self.r = {0x00: 0x0C, 0x01: 0x3F, 0x02: 0x00, 0x03: 0x03, 0x04: 0x5F, 0x05: 76, 0x06: 0x07,
                  0x1C: 0x3F, 0x1D: 0x05}
        for p in range(6):
            self.r[0x11 + p] = 32
        for reg in (0x0C, 0x0D, 0x0E, 0x0F):
            self.r[reg] = chip.r[reg]
        self.a = {reg: bytearray(chip.a[reg]) for reg in (0x0A, 0x0B, 0x10)}
        self.user0 = None     # address the user last opened pipe 0 with (None: never / closed)
        self.ce = False

    def clone(self):
        return copy.deepcopy(self)

    def snapshot(self):
        s = {}
        for reg in CFG_REGS:
            s[reg] = bytes(self.a[reg]) if reg in self.a else bytes([self.r[reg]])
        return s

    # ------------------------------------------------------------------ helpers
    def _one(self, ret=None):
        return [(None, ret, self)]

    def _exc(self, name, base):
        return [(name, None, base)]

    def crc_eff(self):
        c = self.r[0]
        if self.r[1]:
            return 2 if c & 4 else 1
        if not c & 8:
            return 0
        return 2 if c & 4 else 1

    def ack_on(self):
        return (self.r[0x1D] & 6) == 6 and bool(self.r[1] & self.r[0x1C] & 1)

    def addr(self, i):
        if i < 0:
            return bytes(self.a[0x10])
        if i < 2:
            return bytes(self.a[0x0A + i])
        return bytes([self.r[0x0A + i]]) + bytes(self.a[0x0B][1:])

    def _mask_arg(self, cur, v):
        """bool / int / list forms of auto_ack and dynamic_payloads."""
        if isinstance(v, bool):
            return 0x3F if v else 0
        if isinstance(v, int):
            return v & 0x3F
        if isinstance(v, (list, tuple)):
            for i, x in enumerate(v):
                if i < 6 and x >= 0:
                    cur = (cur & ~(1 << i)) | (bool(x) << i)
            return cur
        return None

    # ------------------------------------------------------------------ the API
    def apply(self, op):
        name, args = op[0], op[1:]
        base = self
        s = self.clone()
        f = getattr(s, "op_" + name)
        return f(base, *args)

    # -- RF
    def op_set_channel(s, base, v):
        if not 0 <= v <= 125:
            return s._exc("ValueError", base)
        s.r[5] = v
        return s._one()

    def op_get_channel(s, base):
        return s._one(s.r[5])

    def op_set_data_rate(s, base, v):
        if v not in (1, 2, 250):
            return s._exc("ValueError", base)
        s.r[6] = (s.r[6] & 0xD7) | {1: 0, 2: 0x08, 250: 0x20}[v]
        return s._one()

    def op_get_data_rate(s, base):
        v = s.r[6] & 0x28
        return s._one({0: 1, 8: 2, 0x20: 250}.get(v, 250))

    def op_set_pa_level(s, base, v):
        lna = True
        lvl = v
        if isinstance(v, (list, tuple)) and len(v) > 1:
            lvl, lna = v[0], bool(v[1])
        if isinstance(lvl, int) and not isinstance(lvl, bool) and lvl in (-18, -12, -6, 0):
            s.r[6] = (s.r[6] & 0xF8) | {-18: 0, -12: 2, -6: 4, 0: 6}[lvl] | int(lna)
            return s._one()
        # docs: "any invalid input will invoke the default of 0 dBm with LNA enabled"; code raises
        alt = s.clone()
        alt.r[6] = (alt.r[6] & 0xF8) | 7
        return [("ValueError", None, base), (None, None, alt)]

    def op_get_pa_level(s, base):
        return s._one((3 - ((s.r[6] & 6) >> 1)) * -6)

    def op_get_is_lna_enabled(s, base):
        return s._one(bool(s.r[6] & 1))

    def op_set_crc(s, base, v):
        outs = []
        cands = [min(2, max(0, v))]           # documented: clamped to [0, 2]
        if v < 0:
            cands.append(min(2, abs(v)))      # magnitude reading of a negative length
        for c in cands:
            t = s.clone()
            t.r[0] = (t.r[0] & 0x73) | {0: 0, 1: 0x08, 2: 0x0C}[c]
            outs.append((None, None, t))
        return outs

    def op_get_crc(s, base):
        return s._one(s.crc_eff())

    def op_set_address_length(s, base, v):
        s.r[3] = v - 2 if 3 <= v <= 5 else 0   # documented: invalid input => 2-byte addresses
        return s._one()

    def op_get_address_length(s, base):
        return s._one(s.r[3] + 2)

    # -- auto retry
    @staticmethod
    def _ard_bits(d):
        d = max(250, min(d, 4000))
        return int((d - 250) // 250)

    def op_set_arc(s, base, v):
        s.r[4] = (s.r[4] & 0xF0) | max(0, min(int(v), 15))
        return s._one()

    def op_get_arc(s, base):
        return s._one(s.r[4] & 0x0F)

    def op_set_ard(s, base, v):
        s.r[4] = (s.r[4] & 0x0F) | (s._ard_bits(v) << 4)
        return s._one()

    def op_get_ard(s, base):
        return s._one((s.r[4] >> 4) * 250 + 250)

    def op_set_auto_retries(s, base, d, c):
        s.r[4] = (s._ard_bits(d) << 4) | max(0, min(int(c), 15))
        return s._one()

    def op_get_auto_retries(s, base):
        return s._one(((s.r[4] >> 4) * 250 + 250, s.r[4] & 0x0F))

    # -- auto ack
    def op_set_auto_ack(s, base, v):
        m = s._mask_arg(s.r[1], v)
        if m is None:
            return s._exc("ValueError", base)
        s.r[1] = m
        return s._one()

    def op_get_auto_ack(s, base):
        return s._one(s.r[1])

    def op_set_auto_ack_pipe(s, base, en, pipe):
        if pipe is None:
            s.r[1] = 0x3F if en else 0
        elif 0 <= pipe <= 5:
            s.r[1] = (s.r[1] & ~(1 << pipe)) | (bool(en) << pipe)
        else:
            return s._exc("IndexError", base)
        return s._one()

    def op_get_auto_ack_pipe(s, base, pipe):
        if not 0 <= pipe <= 5:
            return s._exc("IndexError", base)
        return s._one(bool(s.r[1] & (1 << pipe)))

    # -- dynamic payloads
    def _set_dyn(s, m):
        s.r[0x1C] = m
        s.r[0x1D] = (s.r[0x1D] & 3) | (bool(m) << 2)

    def op_set_dynamic_payloads(s, base, v):
        m = s._mask_arg(s.r[0x1C], v)
        if m is None:
            return s._exc("ValueError", base)
        s._set_dyn(m)
        return s._one()

    def op_get_dynamic_payloads(s, base):
        return s._one(s.r[0x1C])

    def op_set_dynamic_payloads_pipe(s, base, en, pipe):
        if pipe is None:
            s._set_dyn(0x3F if en else 0)
        elif 0 <= pipe <= 5:
            s._set_dyn((s.r[0x1C] & ~(1 << pipe)) | (bool(en) << pipe))
        else:
            return s._exc("IndexError", base)
        return s._one()

    def op_get_dynamic_payloads_pipe(s, base, pipe):
        if not 0 <= pipe <= 5:
            return s._exc("IndexError", base)
        return s._one(bool(s.r[0x1C] & (1 << pipe)))

    # -- static payload length
    def op_set_payload_length(s, base, v):
        if isinstance(v, int):
            for p in range(6):
                s.r[0x11 + p] = max(1, min(32, v))
            return s._one()
        if isinstance(v, (list, tuple)):
            for i, x in enumerate(v):
                if i < 6 and x > 0:
                    s.r[0x11 + i] = min(32, x)
            return s._one()
        return s._exc("ValueError", base)

    def op_get_payload_length(s, base):
        return s._one(s.r[0x11])

    def op_set_payload_length_pipe(s, base, v, pipe):
        if pipe is None:
            for p in range(6):
                s.r[0x11 + p] = max(1, min(32, v))
        elif 0 <= pipe <= 5:
            s.r[0x11 + pipe] = max(1, min(32, v))
        else:
            return s._exc("IndexError", base)
        return s._one()

    def op_get_payload_length_pipe(s, base, pipe):
        if not 0 <= pipe <= 5:
            return s._exc("IndexError", base)
        return s._one(s.r[0x11 + pipe])

    # -- features
    def op_set_ack(s, base, en):
        if en:
            s.r[1] |= 1
            s.r[0x1C] |= 1
            s.r[0x1D] |= 4
        s.r[0x1D] = (s.r[0x1D] & 5) | (bool(en) << 1)
        return s._one()

    def op_get_ack(s, base):
        return s._one(s.ack_on())

    def op_set_allow_ask_no_ack(s, base, en):
        s.r[0x1D] = (s.r[0x1D] & 6) | bool(en)
        return s._one()

    def op_get_allow_ask_no_ack(s, base):
        return s._one(bool(s.r[0x1D] & 1))

    def op_interrupt_config(s, base, dr, ds, df):
        s.r[0] = (s.r[0] & 0x0F) | ((not dr) << 6) | ((not ds) << 5) | ((not df) << 4)
        return s._one()

    # -- power / role
    def op_set_power(s, base, on):
        s.r[0] = (s.r[0] & 0x7D) | (bool(on) << 1)
        return s._one()

    def op_get_power(s, base):
        return s._one(bool(s.r[0] & 2))

    def op_set_listen(s, base, rx):
        s.r[0] = (s.r[0] & 0x7C) | 2 | bool(rx)
        if rx:
            s.ce = True
            if s.user0 is not None:
                s.a[0x0A][: len(s.user0)] = s.user0
            else:
                s.r[2] &= 0x3E
        else:
            s.ce = False
            if s.r[1] & 1:
                s.r[2] |= 1
        return s._one()

    def op_get_listen(s, base):
        return s._one(bool(s.r[0] & 2) and bool(s.r[0] & 1))

    # -- pipes
    def op_open_rx_pipe(s, base, pipe, addr):
        addr = bytes(addr)
        if not 0 <= pipe <= 5:
            return s._exc("IndexError", base)
        if not addr:
            return s._exc("ValueError", base)
        if pipe < 2:
            if pipe == 0:
                s.user0 = addr
            s.a[0x0A + pipe][: len(addr)] = addr
        else:
            s.r[0x0A + pipe] = addr[0]
        s.r[2] |= 1 << pipe
        return s._one()

    def op_close_rx_pipe(s, base, pipe):
        if not 0 <= pipe <= 5:
            return s._exc("IndexError", base)
        if pipe == 0:
            s.user0 = None
        s.r[2] &= ~(1 << pipe)
        return s._one()

    def op_open_tx_pipe(s, base, addr):
        addr = bytes(addr)
        s.a[0x10][: len(addr)] = addr
        if s.r[1] & 1:
            s.a[0x0A][: len(addr)] = addr   # pipe 0 is appropriated for ACK reception
            if not s.r[0] & 1:
                s.r[2] |= 1                 # ... and must be open while not in RX mode (C08)
        return s._one()

    def op_get_address(s, base, idx):
        if idx > 5:
            return s._exc("IndexError", base)
        return s._one(s.addr(idx))

    # -- carrier wave (plus variant only; see DESIGN.md C03)
    def op_start_carrier_wave(s, base):
        s.r[0] = (s.r[0] & 0x7C) | 2
        s.ce = True
        if s.r[1] & 1:
            s.r[2] |= 1
        s.r[6] |= 0x90
        return s._one()

    def op_stop_carrier_wave(s, base):
        s.r[0] &= 0x7D
        s.ce = False
        s.r[6] &= ~0x90 & 0xFF
        return s._one()

    def op_print_details(s, base, dump):
        return s._one()

    def op_get_is_plus_variant(s, base):
        return [(None, ANY, s)]
