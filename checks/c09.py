"""C09 - `with` restores an object's complete radio configuration.

One chip, one CE pin and one bus shared by 2-3 driver objects of any mix of RF24, FakeBLE, RF24Network,
RF24Mesh.  Each object is used only inside its own `with` block.

Clauses:
  restore  the configuration registers right after an object's __enter__ equal the snapshot taken as the last
           action inside that object's previous block (or right after its construction), CONFIG.PWR_UP masked -
           whatever other objects did in between
  exit     after __exit__ the radio is powered down (PWR_UP = 0) and CE is low
"""
import contextlib
import io

from nrfsim.core import SimAbort, stream, MS
from nrfsim.harness import Result
from nrfsim.mcu import World
from nrfsim.chip import CONFIG_REGS
from checks import c03
from circuitpython_nrf24l01.rf24 import RF24
from circuitpython_nrf24l01.fake_ble import FakeBLE
from circuitpython_nrf24l01.rf24_network import RF24Network
from circuitpython_nrf24l01.rf24_mesh import RF24Mesh

PROP = "C09"
LEVEL = "exploration"
RULE = ("seeded interleavings of 3..10 `with` blocks of 2-3 objects (any mix of RF24, FakeBLE, RF24Network, RF24Mesh) "
        "sharing one chip/CE/bus; inside each block a seeded history of configuration calls allowed by the class "
        "(RF24: the C03 alphabet; network/mesh: the RadioMixin attributes, node_address, multicast_level; BLE: name, "
        "show_pa_level, hop_channel, channel, pa_level, payload_length, interrupt_config), in a third of the blocks also traffic (a transmission to an absent peer and a return to RX mode); chip plus/non-plus, clean/dirty. "
        "Non-trivial: some object re-entered its block after another object changed at least one register; distinct = "
        "distinct (class mix, block order, call names)")
ASSUMPTIONS = ["configuration registers = 0x00-0x06, 0x0A-0x16, 0x1C, 0x1D of the chip model",
               "non-plus chips: start/stop_carrier_wave are not generated (documented to need a `with` re-entry)"]
CLAUSES = {"restore": "entering a block puts every configuration register back into the state the object last established",
           "exit": "leaving a block powers the radio down with CE low"}
SHRINK_KEYS = ("blocks",)
CHUNK = 60

NET_OPS = [["set_channel", 0], ["set_channel", 90], ["set_pa_level", -12], ["set_pa_level", [0, False]], ["set_data_rate", 2],
           ["set_data_rate", 250], ["set_crc", 1], ["set_crc", 0], ["set_auto_retries", 750, 3], ["set_auto_retries", 4000, 15],
           ["set_dynamic_payloads_pipe", False, 2], ["set_dynamic_payloads_pipe", True, None], ["set_listen", False],
           ["set_listen", True], ["set_power", False], ["set_power", True], ["interrupt_config", False, True, False],
           ["node_address", 0o1], ["node_address", 0o23], ["node_address", 0], ["multicast_level", 2], ["multicast_level", 0],
           ["print_pipes"], ["get_channel"]]
BLE_OPS = [["name", "nRF"], ["name", None], ["show_pa_level", True], ["show_pa_level", False], ["hop_channel"],
           ["set_channel", 26], ["set_channel", 80], ["set_channel", 50], ["set_pa_level", -18], ["set_pa_level", 0],
           ["set_payload_length", 24], ["set_payload_length", 32], ["interrupt_config", True, False, False],
           ["set_arc", 3], ["set_listen", True], ["set_listen", False], ["set_power", True], ["get_channel"],
           # configuration calls a FakeBLE object refuses (NotImplementedError), through every inherited entry point: a refused call leaves
           # neither the radio nor what the object re-establishes on its next entry changed
           ["set_auto_ack", True], ["set_dynamic_payloads", True], ["set_ack", True], ["set_data_rate", 2], ["set_address_length", 3], ["set_crc", 1],
           ["call_set_auto_ack", True, 1], ["call_set_auto_ack", True, 0], ["call_set_dynamic_payloads", True, 2], ["call_open_rx_pipe", 1], ["call_open_tx_pipe"]]


def count(tier):
    return 1500 if tier == "quick" else 60000


def exhaustive(tier):
    return False


def make(i, base_seed, tier):
    seed = base_seed * 1_000_003 + i
    rng = stream(seed, "work")
    classes = [rng.choice(["RF24", "RF24", "FakeBLE", "RF24Network", "RF24Mesh"]) for _ in range(rng.choice([2, 2, 3]))]
    blocks = []
    for _ in range(rng.randint(3, 10)):
        who = rng.randrange(len(classes))
        cls = classes[who]
        ops = []
        for _ in range(rng.randint(0, 8)):
            if cls == "RF24":
                op = c03._rand_op(rng)
            elif cls == "FakeBLE":
                op = list(rng.choice(BLE_OPS))
            else:
                op = list(rng.choice(NET_OPS))
                if cls == "RF24Mesh" and op[0] == "node_address":
                    op = ["multicast_level", rng.randint(0, 4)]
            ops.append(op)
        xr = stream(seed * 31 + len(blocks), "traffic")
        if xr.random() < 0.3:
            # traffic inside the block (not only configuration): the object transmits - to a peer that is not there - and listens again
            ops.insert(xr.randint(0, len(ops)), ["traffic", xr.getrandbits(16)])
        if cls == "RF24" and xr.random() < 0.12:
            # the block ends with the carrier test (start, stop).  On chips the driver takes for non-plus the test overwrites configuration
            # (documented) and the documented way back is the object's next `with` entry: it re-establishes what the object had set
            # up before the test.  (On plus chips stop_carrier_wave() restores by itself.)
            ops.append(["carrier_test"])
        blocks.append({"who": who, "ops": ops})
    return {"seed": seed, "classes": classes, "blocks": blocks, "plus": rng.random() < 0.7, "dirty": rng.random() < 0.4,
            "backend": rng.choice(["spidev", "busio"])}


def _traffic(obj, cls, seed):
    """a failing transmission and a return to RX mode inside the block"""
    r = stream(seed, "traffic_op")
    if cls in ("RF24", "FakeBLE"):
        # (the application's own preparations: powered up, nothing left in the TX FIFO - send() on a sleeping radio or behind a
        # full FIFO does not return, which is outside this property)
        obj.power = True
        obj.flush_tx()
    if cls == "RF24":
        if r.random() < 0.7:
            obj.open_rx_pipe(0, bytes(r.getrandbits(8) for _ in range(5)))
        obj.listen = False
        obj.open_tx_pipe(bytes(r.getrandbits(8) for _ in range(5)))
        try:
            obj.send(bytes(r.getrandbits(8) for _ in range(r.randint(1, 8))))
        except ValueError:
            pass
        obj.listen = True
    elif cls == "FakeBLE":
        obj.listen = False
        obj.advertise(b"\x01", 0xFF)
        obj.listen = True
    else:
        from circuitpython_nrf24l01.network.structs import RF24NetworkHeader, RF24NetworkFrame
        obj.tx_timeout = 2
        if cls == "RF24Mesh":
            obj.write(0o3, 1, b"x")
        else:
            obj.write(RF24NetworkFrame(RF24NetworkHeader(0o3 if obj.node_address != 0o3 else 0o4, 1), b"x"))


def _net_call(obj, op):
    n = op[0]
    a = op[1:]
    if n == "node_address":
        obj.node_address = a[0]
    elif n == "multicast_level":
        obj.multicast_level = a[0]
    elif n == "print_pipes":
        with contextlib.redirect_stdout(io.StringIO()):
            obj.print_pipes()
    elif n == "set_auto_retries":
        obj.set_auto_retries(a[0], a[1])
    elif n == "set_dynamic_payloads_pipe":
        obj.set_dynamic_payloads(a[0], a[1])
    elif n == "interrupt_config":
        obj.interrupt_config(*a)
    elif n.startswith("set_"):
        setattr(obj, n[4:], a[0])
    elif n.startswith("get_"):
        getattr(obj, n[4:])


def _ble_call(obj, op):
    n = op[0]
    a = op[1:]
    if n == "name":
        obj.name = a[0]
    elif n == "show_pa_level":
        obj.show_pa_level = a[0]
    elif n == "hop_channel":
        obj.hop_channel()
    elif n == "interrupt_config":
        obj.interrupt_config(*a)
    elif n == "call_set_auto_ack":
        obj.set_auto_ack(a[0], a[1])
    elif n == "call_set_dynamic_payloads":
        obj.set_dynamic_payloads(a[0], a[1])
    elif n == "call_open_rx_pipe":
        obj.open_rx_pipe(a[0], b"\x51\x52\x53\x54\x55")
    elif n == "call_open_tx_pipe":
        obj.open_tx_pipe(b"\x61\x62\x63\x64\x65")
    elif n.startswith("set_"):
        setattr(obj, n[4:], a[0])
    elif n.startswith("get_"):
        getattr(obj, n[4:])


def _snap(radio):
    s = radio.config_snapshot()
    s[0] = bytes([s[0][0] & 0x7D])
    return s


def run(scn):
    res = Result()
    w = World(scn["seed"], max_events=400_000, max_time=120_000 * MS)
    try:
        _run(scn, w, res)
    except SimAbort:
        pass
    finally:
        res.absorb_world(w)
        w.close()
    return res


def _run(scn, w, res):
    sim = w.sim
    radio = w.radio("U", plus=scn["plus"])
    if scn["dirty"]:
        c03.dirty_chip(radio, stream(scn["seed"], "dirty"))
    bus = w.bus(radio, backend=scn["backend"])
    objs, last = [], []
    for k, cls in enumerate(scn["classes"]):
        if cls == "RF24":
            o = RF24(*bus)
        elif cls == "FakeBLE":
            o = FakeBLE(*bus)
        elif cls == "RF24Network":
            o = RF24Network(bus[0], bus[1], bus[2], [0, 0o1, 0o12][k % 3])
        else:
            o = RF24Mesh(bus[0], bus[1], bus[2], 0)
        objs.append(o)
        last.append(_snap(radio))
    foreign_change = [False] * len(objs)
    carrier_done = [False] * len(objs)
    names = []
    for blk in scn["blocks"]:
        who = blk["who"]
        if who >= len(objs):
            continue
        o, cls = objs[who], scn["classes"][who]
        before_enter = _snap(radio)
        try:
            o.__enter__()
        except SimAbort:
            raise
        except Exception as e:
            res.add("restore", {"kind": "enter_raised", "cls": cls, "exc": type(e).__name__},
                    "%s #%d: entering its block raised %r" % (cls, who, e))
            break
        got = _snap(radio)
        if carrier_done[who]:
            # the carrier test put the radio into TX mode itself (start_carrier_wave() calls listen = False, which opens pipe 0 for
            # acknowledgements): role bit and pipe 0's enable bit are the test's business, everything else is the object's configuration
            got = dict(got)
            got[0] = bytes([got[0][0] & 0x7C])
            got[2] = bytes([got[2][0] & 0x3E])
            carrier_done[who] = False
        if before_enter != last[who]:
            foreign_change[who] = True
            res.nontrivial = True
        diffs = ["reg 0x%02X radio=%s established=%s" % (reg, got[reg].hex(), last[who][reg].hex())
                 for reg in CONFIG_REGS if got[reg] != last[who][reg]]
        if diffs:
            res.add("restore", {"kind": "not_restored", "cls": cls, "regs": ",".join(d.split()[1] for d in diffs)},
                    "%s #%d re-entered its block: %s" % (cls, who, "; ".join(diffs)))
            o.__exit__(None, None, None)
            break
        names.append((who, [op[0] for op in blk["ops"]]))
        before_carrier = None
        for op in blk["ops"]:
            sim.log("call", cls, op[0])
            try:
                if op[0] == "carrier_test":
                    if not o.is_plus_variant:
                        before_carrier = _snap(radio)
                        sim.count("nonplus_carrier_test_at_end_of_block")
                    o.start_carrier_wave()
                    o.stop_carrier_wave()
                elif op[0] == "traffic":
                    _traffic(o, cls, op[1])
                    sim.count("traffic_inside_block")
                elif cls == "RF24":
                    if op[0] in ("start_carrier_wave", "stop_carrier_wave") and not o.is_plus_variant:
                        continue
                    c03.call(o, op)
                elif cls == "FakeBLE":
                    _ble_call(o, op)
                else:
                    _net_call(o, op)
            except SimAbort:
                raise
            except (ValueError, IndexError, NotImplementedError):
                pass
        last[who] = _snap(radio)
        if before_carrier is not None:
            last[who] = dict(before_carrier)
            last[who][0] = bytes([last[who][0][0] & 0x7C])
            last[who][2] = bytes([last[who][2][0] & 0x3E])
            carrier_done[who] = True
        try:
            o.__exit__(None, None, None)
        except SimAbort:
            raise
        except Exception as e:
            res.add("exit", {"kind": "exit_raised", "cls": cls, "exc": type(e).__name__}, "%s #%d: leaving its block raised %r" % (cls, who, e))
            break
        if radio.pwr_up or radio.ce:
            res.add("exit", {"kind": "not_powered_down", "cls": cls}, "after __exit__: PWR_UP=%d CE=%d" % (radio.pwr_up, radio.ce))
            break
    import hashlib
    res.isig = hashlib.blake2b(repr((scn["classes"], names)).encode(), digest_size=8).hexdigest()
    res.sample = {"classes": scn["classes"], "blocks": [(b["who"], [op[0] for op in b["ops"]]) for b in scn["blocks"]][:5]}
