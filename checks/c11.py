"""C11 - header and fragment wire formats are stable and TMRh20-compatible.

(i)   on the air: a sender node writes messages of 0..144 bytes to a receiver node (both real, running as tasks); the
      sniffed frames must equal the output of the independent reference fragmenter (checks/netref.fragment: ceil(n/24)
      frames, one id, FIRST/MORE/LAST, descending counter, original type in the last frame's reserved byte, <= 32 bytes
      each); a TMRh20-style reference reassembler fed with them must return the original message; the real receiver's
      dequeued frame must carry the same fields
(ii)  after write() returns - success, and failure with all attempts of the k-th fragment dropped (fault) - the caller's
      header shows its original type
(iii) header layout: for field values that cannot cross a node (reserved/invalid addresses, the full 16-bit id range, all
      256 types/reserved values, one-character string types, buffers shorter than 8 bytes) pack()/unpack() are evaluated
      directly against the reference layout.  This sub-clause is a pure function; the simulator adds nothing to it
      (labelled direct_evaluation, DESIGN.md section 6).

Clauses: fragments (i), reassembly (i), restored (ii), layout (iii).
"""
import hashlib
import struct

from nrfsim.core import SimAbort, stream, MS
from nrfsim.harness import Result
from nrfsim.mcu import World
from checks import netref
from checks.netcommon import Net
from checks.c05 import payload
from circuitpython_nrf24l01.network.structs import RF24NetworkHeader, RF24NetworkFrame

PROP = "C11"
LEVEL = "exploration"
RULE = ("(i)/(ii): every message length 0..144 with 2 types each (quick) / 16 seeds each (thorough) written over one hop and "
        "over a routed hop, frame ids incl. 0xFFFF wrap-around, plus for every fragment index k of 2..6-fragment messages the "
        "fault 'all attempts of fragment k are lost' - for good, or until a seeded instant 0..150 ms later (biased to the 95-150 ms span around the moment the sender gives up) (write() completes the message or gives up and says which), and routed single-frame writes whose NETWORK_ACK is held up beyond a short route_timeout followed at once by a fragmented routed write (a stray NETWORK_ACK during the per-fragment wait); (iii): header values swept directly - all 256 types x 256 reserved values, "
        "all 65 536 frame ids, all 65 536 from/to values, string types, short buffers. Non-trivial: >= 2 fragments on the air or a "
        "direct-evaluation batch; distinct = distinct (length, type, id, fault index)")
ASSUMPTIONS = ["reference fragmenter/reassembler in checks/netref.py (TMRh20 numbering)", "little-endian host (struct native order = '<' here)"]
CLAUSES = {"fragments": "ceil(n/24) frames, one id, first/more/last, descending counter, type in the last reserved byte",
           "reassembly": "a TMRh20-style receiver reassembles exactly the original message", "restored": "caller's header shows its original type after sending",
           "layout": "8 bytes: origin, destination, id little-endian 16 bit, type, reserved; short buffers refused"}
PROBES = ["outage_healed_in_time", "outage_outlasted_the_retries", "stray_network_ack_during_fragment_wait", "forwarded_between_two_fragments", "reception_between_two_messages", "write_began_with_an_unread_frame_in_the_radio"]
SHRINK_KEYS = ("msgs", "faults")
CHUNK = 20
NDIRECT = 8


NLATE = 40


def count(tier):
    return NDIRECT + (145 * 2 + 60 if tier == "quick" else 145 * 16 + 600) + (NLATE if tier == "quick" else 10 * NLATE)


def exhaustive(tier):
    return False


def make(i, base_seed, tier):
    seed = base_seed * 1_000_003 + i
    rng = stream(seed, "work")
    if i < NDIRECT:
        return {"seed": seed, "kind": "direct", "part": i}
    j = i - NDIRECT
    per = 2 if tier == "quick" else 16
    if j < 145 * per:
        ln = j // per
        return {"seed": seed, "kind": "air", "routed": (j % per) % 2 == 1, "faults": [],
                "msgs": [{"len": ln, "type": rng.choice([0, 1, 65, 127, rng.randint(0, 127)]), "seed": rng.getrandbits(20),
                          "fid": rng.choice([0, 1, 0xFFFE, 0xFFFF, rng.getrandbits(16)]), "strtype": rng.random() < 0.1}],
                "toggle": rng.random() < 0.3, "then_empty": rng.random() < 0.3}
    if j >= 145 * per + (60 if tier == "quick" else 600):
        # late NETWORK_ACK: a routed single-frame message of an acknowledged type whose NETWORK_ACK is held up beyond the sender's
        # (short) route_timeout, followed at once by a fragmented routed message - the stray NETWORK_ACK arrives while the sender
        # waits for the first fragment's: every frame of the second message must still carry that message's own header
        # (the NETWORK_ACK is held up by an MCU stall of the relay 0o1 right after its radio stored it: explicit fault "stall_on_rx")
        lr = stream(seed, "late")
        if j % 2:
            # cross traffic: while 0o11 writes a fragmented routed message, its child 0o111 sends a frame to its other child 0o211 - the
            # sender passes it on (downwards) during a wait between two fragments; every fragment still goes to the sender's next hop
            return {"seed": seed, "kind": "air", "routed": True, "late_ack": True, "cross": {"delay_ms": lr.uniform(0, 40), "n": lr.randint(1, 3)}, "route_timeout": 75,
                    "faults": [], "msgs": [{"len": lr.randint(49, 144), "type": lr.randint(0, 127), "seed": lr.getrandbits(20), "fid": lr.getrandbits(16), "strtype": False}]}
        return {"seed": seed, "kind": "air", "routed": True, "late_ack": True, "route_timeout": lr.choice([8, 10, 12]),
                "faults": [], "stall_on_rx": {"node": 1, "ptype": 193, "ms": lr.uniform(8, 30)},
                "msgs": [{"len": lr.randint(0, 24), "type": lr.randint(65, 127), "seed": lr.getrandbits(20), "fid": lr.getrandbits(16), "strtype": False},
                         {"len": lr.randint(49, 144), "type": lr.randint(0, 127), "seed": lr.getrandbits(20), "fid": lr.getrandbits(16), "strtype": False}]}
    # fragment abort: all attempts of fragment k lost
    nfr = rng.randint(2, 6)
    k = rng.randrange(nfr)
    ln = rng.randint(24 * (nfr - 1) + 1, 24 * nfr)
    typ = rng.randint(0, 127)
    if k == nfr - 1:
        rule = {"src": "n1", "ack": False, "ptype": 150}
    else:
        rule = {"src": "n1", "ack": False, "ptype": 148 if k == 0 else 149, "pres": nfr - k}
    if j % 2:
        # the outage heals: fragment k's attempts are lost only until a seeded instant, spread over the whole span in which the
        # sender keeps retrying (about 95 ms) and beyond - write() then either completes the message or gives up, and must say which
        hr = stream(seed, "heal")
        x_ms = hr.uniform(95, 150) if hr.random() < 0.6 else hr.uniform(0, 95)     # the sender gives up about 105-110 ms after the first attempt
        rule["t1"] = int((2 + x_ms) * MS)
        # ... and whatever became of it, the next message goes out as exactly its own frames (nothing left over in the radio)
        return {"seed": seed, "kind": "air", "routed": False, "faults": [rule], "heals": True,
                "msgs": [{"len": ln, "type": typ, "seed": rng.getrandbits(20), "fid": rng.getrandbits(16), "strtype": False},
                         {"len": hr.randint(1, 70), "type": hr.randint(0, 127), "seed": hr.getrandbits(20), "fid": hr.getrandbits(16), "strtype": False}]}
    return {"seed": seed, "kind": "air", "routed": False, "faults": [rule], "abort_at": k,
            "msgs": [{"len": ln, "type": typ, "seed": rng.getrandbits(20), "fid": rng.getrandbits(16), "strtype": False}]}


def _direct(scn, res):
    part = scn["part"]
    rng = stream(scn["seed"], "direct")
    n = 0

    def chk(frm, to, fid, typ, resv, typ_arg=None):
        h = RF24NetworkHeader(to, typ_arg if typ_arg is not None else typ)
        h.from_node, h.frame_id, h.reserved = frm, fid, resv
        if typ_arg is None:
            h.message_type = typ
        if h.to_node != (to & 0xFFF):
            # constructor documents a 12-bit destination
            h.to_node = to
        buf = h.pack()
        want = netref.pack_header(frm & 0xFFF, h.to_node & 0xFFF, fid & 0xFFFF, typ & 0xFF, resv & 0xFF)
        if bytes(buf) != want or len(buf) != 8 or len(h) != 8:
            res.add("layout", {"kind": "pack"}, "header(from %o to %o id %d type %d reserved %d) packed to %s, layout says %s" % (frm, to, fid, typ, resv, bytes(buf).hex(), want.hex()))
            return False
        g = RF24NetworkHeader()
        if not g.unpack(buf) or (g.from_node, g.to_node, g.frame_id, g.message_type, g.reserved) != struct.unpack("<HHHBB", want):
            res.add("layout", {"kind": "unpack"}, "unpack(%s) gave from %o to %o id %d type %d reserved %d" % (want.hex(), g.from_node, g.to_node, g.frame_id, g.message_type, g.reserved))
            return False
        return True

    if part == 0:
        for typ in range(256):
            for resv in range(256):
                n += 1
                if not chk(0o1, 0o2, 7, typ, resv):
                    return
    elif part == 1:
        for fid in range(65536):
            n += 1
            if not chk(0o12, 0o345, fid, 33, 0):
                return
    elif part in (2, 3):
        for a in range(65536):
            n += 1
            if not (chk(a & 0xFFF, 0o1, 1, 2, 3) if part == 2 else chk(0o1, a & 0xFFF, 1, 2, 3)):
                return
    elif part == 4:
        for c in range(0, 256):     # every one-character string whose code fits the type byte (not only ASCII)
            n += 1
            if not chk(0o1, 0o2, 9, c, 0, typ_arg=chr(c)):
                return
        for s in ("AB", "zzz"):
            n += 1
            h = RF24NetworkHeader(0o1, s)
            if h.pack()[6] != ord(s[0]):
                res.add("layout", {"kind": "string_type"}, "string type %r packed as %d" % (s, h.pack()[6]))
                return
    elif part == 5:
        for ln in range(0, 8):
            n += 1
            buf = bytes(range(ln))
            h = RF24NetworkHeader()
            before = (h.from_node, h.to_node, h.frame_id, h.message_type, h.reserved)
            if h.unpack(buf) is not False or RF24NetworkFrame().unpack(buf) is not False:
                res.add("layout", {"kind": "short_buffer_accepted"}, "a %d-byte buffer was accepted as a header" % ln)
                return
            if (h.from_node, h.to_node, h.frame_id, h.message_type, h.reserved) != before:
                res.add("layout", {"kind": "short_buffer_modified"}, "a refused %d-byte buffer modified the header" % ln)
                return
    elif part == 6:
        # frame = header followed by the unmodified message
        for _ in range(4000):
            n += 1
            ln = rng.randint(0, 144)
            msg = bytes(rng.getrandbits(8) for _ in range(ln))
            h = RF24NetworkHeader(rng.randrange(4096), rng.randrange(256))
            h.from_node, h.frame_id, h.reserved = rng.randrange(4096), rng.randrange(65536), rng.randrange(256)
            f = RF24NetworkFrame(h, msg if rng.random() < 0.5 else bytearray(msg))
            buf = f.pack()
            if bytes(buf) != bytes(h.pack()) + msg or len(f) != 8 + ln:
                res.add("layout", {"kind": "frame_pack"}, "frame.pack() is not header + message (len %d)" % ln)
                return
            g = RF24NetworkFrame()
            if not g.unpack(buf) or bytes(g.message) != msg or g.header.pack() != h.pack():
                res.add("layout", {"kind": "frame_unpack"}, "frame.unpack() does not reproduce header and message (len %d)" % ln)
                return
    else:
        # ids: consecutive headers get consecutive ids with 16-bit wrap-around
        from nrfsim import mcu
        mcu.set_header_id(0xFFFD)
        ids = [RF24NetworkHeader().frame_id for _ in range(6)]
        n += 6
        if ids != [0xFFFD, 0xFFFE, 0xFFFF, 0, 1, 2]:
            res.add("layout", {"kind": "id_sequence"}, "consecutive frame ids around the wrap: %r" % ids)
    res.count("direct_evaluation:headers", n)
    res.nontrivial = True
    res.isig = "direct%d" % part
    res.sample = {"kind": "direct_evaluation", "part": part, "evaluated": n}


def run(scn):
    res = Result()
    if scn["kind"] == "direct":
        _direct(scn, res)
        return res
    w = World(scn["seed"], plan=scn.get("faults"), max_events=3_000_000, max_time=120_000 * MS)
    net = Net(w)
    try:
        _run(scn, w, net, res)
    except SimAbort:
        pass
    finally:
        res.absorb_world(w)
        w.close()
    return res


def _late_ack(scn, w, net, res, dst_key, dst):
    sim = w.sim
    msgs = [(m, payload(m["seed"], m["len"])) for m in scn["msgs"]]
    a0 = len(w.air.trace)
    if scn.get("cross"):
        cr = scn["cross"]

        def do_x(node):
            import circuitpython_nrf24l01.network.mixins as mix
            mix.time.sleep(cr["delay_ms"] / 1000)
            return [node.write(RF24NetworkFrame(RF24NetworkHeader(0o211, 1), b"cross%d" % k)) for k in range(cr["n"])]
        cx = net.post(73, "write", do_x)

    def do(node):
        node.route_timeout = scn["route_timeout"]
        out = []
        for (m, data) in msgs:
            h = RF24NetworkHeader(dst, m["type"])
            h.frame_id = m["fid"]
            out.append(node.write(RF24NetworkFrame(h, data)))
        return out
    c = net.call(9, "write", do, timeout=20_000 * MS)
    net.wait_quiet(quiet=8 * MS, timeout=2000 * MS)
    if not c.done or c.exc is not None:
        res.add("fragments", {"kind": "write_raised_or_hung", "exc": type(c.exc).__name__}, "write() %r" % (c.exc,))
        return
    if scn.get("cross"):
        net.wait(cx, timeout=20_000 * MS)
        net.wait_quiet(quiet=8 * MS, timeout=2000 * MS)
        fr_ = [t for t in w.air.trace[a0:] if t["src"] == "n9" and not t["ack"] and len(t["data"]) >= 8 and t["data"][6] in (148, 149, 150)]
        fw_ = [t for t in w.air.trace[a0:] if t["src"] == "n9" and not t["ack"] and len(t["data"]) >= 8 and (t["data"][0] | (t["data"][1] << 8)) == 0o111]
        if fr_ and fw_ and fr_[0]["t0"] < fw_[0]["t0"] < fr_[-1]["t0"]:
            sim.count("forwarded_between_two_fragments")
        bad = [t for t in fr_ if t["addr"] != fr_[0]["addr"]]
        if bad:
            res.add("fragments", {"kind": "fragment_to_other_address", "cross": True},
                    "fragment type %d (reserved %d) of the sender's own message went to pipe address %s, the first fragment went to %s (a frame from 0o111 for 0o211 was passed on in between)"
                    % (bad[0]["data"][6], bad[0]["data"][7], bad[0]["addr"].hex(), fr_[0]["addr"].hex()))
            return
    if c.result[0] is False:
        sim.count("first_write_timed_out")
    acks = [t for t in w.air.trace[a0:] if t["src"] == "n1" and not t["ack"] and len(t["data"]) >= 8 and t["data"][6] == 193 and ("n9", "stored") in [tuple(x) for x in t["rx"]]]
    frag_t = [t["t0"] for t in w.air.trace[a0:] if t["src"] == "n9" and not t["ack"] and len(t["data"]) >= 8 and t["data"][6] == 148]
    if c.result[0] is False and acks and frag_t and acks[0]["t0"] > frag_t[0]:
        sim.count("stray_network_ack_during_fragment_wait")
    sent = []
    for t in w.air.trace[a0:]:
        if t["src"] == "n9" and not t["ack"] and (not sent or sent[-1] != t["data"]) and (len(t["data"]) < 8 or (t["data"][0] | (t["data"][1] << 8)) == 0o11):
            sent.append(t["data"])          # (the sender's own frames; what it passes on for others is not its message)
    ref = []
    for (m, data) in msgs:
        ref += netref.fragment(0o11, dst, m["fid"], m["type"], data)
    want = ref if c.result[-1] else ref[:len(sent)]
    if sent != want:
        bad = next((j for j in range(min(len(sent), len(want))) if sent[j] != want[j]), min(len(sent), len(want)))
        res.add("fragments", {"kind": "frame_mismatch", "late_ack": True, "at": min(bad, 2)},
                "after a routed write whose NETWORK_ACK came late, frame %d on the air is %s, reference says %s (%d frames sent, %d expected; write() results %r)"
                % (bad, sent[bad].hex() if bad < len(sent) else None, want[bad].hex() if bad < len(want) else None, len(sent), len(want), c.result))
        return
    res.nontrivial = True
    if c.result[-1] and (len(c.result) < 2 or len(msgs) == 2):
        ra = netref.TmrhReassembler()
        for f in sent:
            ra.feed(f)
        if ra.out != [(0o11, dst, m["fid"], m["type"], data) for (m, data) in msgs]:
            res.add("reassembly", {"kind": "reference_receiver", "late_ack": True}, "a TMRh20-style receiver fed with the sniffed frames returned %r" % [(oct(o[0]), o[3], len(o[4])) for o in ra.out])


def _run(scn, w, net, res):
    sim = w.sim
    fast = {"spi_overhead_us": 10, "spi_jitter_us": 2, "poll_us": 100}
    routed = scn.get("routed", False)
    net.add(0, "net", 0, knobs=fast)
    net.add(1, "net", 0o1, knobs=fast)
    if routed:
        net.add(2, "net", 0o2, knobs=fast)
    if scn.get("late_ack"):
        net.add(9, "net", 0o11, knobs=fast)       # the sender of this family: 0o11 -> 0o1 -> 0 -> 0o2
    if scn.get("cross"):
        net.add(73, "net", 0o111, knobs=fast)
        net.add(137, "net", 0o211, knobs=fast)
    if scn.get("late_ack") and scn.get("stall_on_rx"):
        rule = scn["stall_on_rx"]
        relay = net.nodes[rule["node"]]
        fired = []

        def on_store(pipe, data, relay=relay):
            # explicit fault: the relay's MCU stalls right after its radio stored the first frame of the given type
            if not fired and len(data) >= 8 and data[6] == rule["ptype"]:
                fired.append(sim.now)
                relay.mcu.pending_stall = int(rule["ms"] * MS)
                sim.count("fault:mcu_stall_on_rx")
        relay.radio.on_store = on_store
    net.start()
    sim.advance(2 * MS)
    dst_key, dst = (2, 0o2) if routed else (0, 0)
    if scn.get("late_ack"):
        _late_ack(scn, w, net, res, dst_key, dst)
        net.shutdown()
        res.isig = hashlib.blake2b(repr((scn["msgs"], scn.get("stall_on_rx"), scn.get("cross"), "late")).encode(), digest_size=8).hexdigest()
        res.sample = {"msgs": [(m["len"], m["type"], m["fid"]) for m in scn["msgs"]], "late_ack": True, "routed": True}
        return
    msgs_ = list(scn["msgs"])
    if scn.get("then_empty") and len(msgs_) == 1 and not scn.get("faults"):
        # a header-only message (no body at all) right after one with a body: every node's frame buffer still holds the previous body
        msgs_.append({"len": 0, "type": (msgs_[0]["type"] + 1) & 0x7F, "seed": 1, "fid": (msgs_[0]["fid"] + 1) & 0xFFFF, "strtype": False})
    for mi_, m in enumerate(msgs_):
        if scn.get("heals") and mi_ == 1:
            # between the two messages the sender receives something (the peer writes to it)
            cr_ = net.call(0, "write", lambda node: node.write(RF24NetworkFrame(RF24NetworkHeader(0o1, 9), b"hello")), timeout=5000 * MS)
            net.wait_quiet(quiet=8 * MS, timeout=2000 * MS)
            if cr_.done and cr_.result is True:
                sim.count("reception_between_two_messages")
        data = payload(m["seed"], m["len"])
        typ = m["type"]
        box = {}
        a0 = len(w.air.trace)
        mark = len(net.nodes[dst_key].log)

        def do(node, m=m, data=data):
            if scn.get("toggle"):
                # history dimension: fragmentation was switched off and on again before this message
                node.fragmentation = False
                node.fragmentation = True
            h = RF24NetworkHeader(dst, chr(typ) if m.get("strtype") and 32 <= typ < 127 else typ)
            h.frame_id = m["fid"]
            f = RF24NetworkFrame(h, data)
            box["hdr"] = h
            r = node.write(f)
            box["after"] = (h.message_type, h.to_node, h.frame_id)
            return r
        if mi_ == 0 and scn.get("faults") and not routed and (scn["seed"] // 2) % 2 == 0:
            # history: a frame from the peer reached the sender's radio while its application was busy, and the application goes
            # straight on to write() - the frame waits unread in the RX FIFO for the whole write, manual retries included
            import circuitpython_nrf24l01.network.mixins as mx_
            net.post(1, "busy", lambda node: mx_.time.sleep(0.006))
            sim.advance(1 * MS)
            cr0 = net.call(0, "write", lambda node: node.write(RF24NetworkFrame(RF24NetworkHeader(0o1, 10), b"early")), timeout=5000 * MS)
            if cr0.done and cr0.result is True and net.nodes[1].radio.rx_fifo:
                sim.count("write_began_with_an_unread_frame_in_the_radio")
        c = net.post(1, "write", do)
        net.wait(c, timeout=20_000 * MS)
        net.wait_quiet(quiet=8 * MS, timeout=2000 * MS)
        if not c.done or c.exc is not None:
            res.add("fragments", {"kind": "write_raised_or_hung", "exc": type(c.exc).__name__}, "write() %r" % (c.exc,))
            return
        want_t = typ
        got_t = box["after"][0]
        if isinstance(got_t, str):
            got_t = ord(got_t[0])
        if got_t != want_t:
            res.add("restored", {"kind": "type_not_restored", "aborted": bool(scn.get("faults")), "routed": routed},
                    "after write() (returned %r) the caller's header shows type %r, it was created with %r" % (c.result, box["after"][0], typ))
        # ---- frames the sender put on the air (first copy of each distinct payload, in order)
        sent = []
        for t in w.air.trace[a0:]:
            if t["src"] == "n1" and not t["ack"] and (not sent or sent[-1] != t["data"]):
                sent.append(t["data"])
        ref = netref.fragment(0o1, dst, m["fid"], typ, data)
        k = scn.get("abort_at")
        want = ref if k is None else ref[:k + 1]
        if scn.get("heals"):
            # write() reported success: every frame of the message must have been emitted; failure: a proper prefix or all of it
            if c.result:
                sim.count("outage_healed_in_time")
            else:
                sim.count("outage_outlasted_the_retries")
                want = ref[:len(sent)] if 1 <= len(sent) <= len(ref) else ref
        if sent != want:
            bad = next((j for j in range(min(len(sent), len(want))) if sent[j] != want[j]), min(len(sent), len(want)))
            res.add("fragments", {"kind": "frame_mismatch", "nfrag": min(len(ref), 3), "at": min(bad, 2)},
                    "message of %d bytes type %d id %d: frame %d on the air is %s, reference fragmenter says %s (%d frames sent, %d expected)"
                    % (m["len"], typ, m["fid"], bad, sent[bad].hex() if bad < len(sent) else None, want[bad].hex() if bad < len(want) else None, len(sent), len(want)))
            return
        if routed and k is None:
            fwd = []
            for t in w.air.trace[a0:]:
                if t["src"] == "n0" and not t["ack"] and len(t["data"]) >= 8 and t["data"][6] != 193 and (t["data"][0] | (t["data"][1] << 8)) == 0o1 and (not fwd or fwd[-1] != t["data"]):
                    fwd.append(t["data"])
            if fwd != sent[:len(fwd)] or (c.result and len(fwd) != len(sent)):
                res.add("fragments", {"kind": "forwarded_frame_differs"}, "the relay passed on %r, the sender emitted %r" % ([f.hex() for f in fwd][:4], [f.hex() for f in sent][:4]))
                return
        if any(len(f) > 32 for f in sent):
            res.add("fragments", {"kind": "frame_too_long"}, "a frame longer than 32 bytes was produced")
        if len(ref) > 1:
            res.nontrivial = True
        if k is None and (not scn.get("heals") or c.result):
            # ---- TMRh20-style reassembler on the sniffed frames
            ra = netref.TmrhReassembler()
            for f in sent:
                ra.feed(f)
            if ra.out != [(0o1, dst, m["fid"], typ, data)]:
                res.add("reassembly", {"kind": "reference_receiver"}, "a TMRh20-style receiver fed with the sniffed frames returned %r"
                        % [(oct(o[0]), o[3], len(o[4])) for o in ra.out])
            got = net.nodes[dst_key].log[mark:]
            if [(e[1], e[2], e[3], e[4], e[5]) for e in got] != [(0o1, dst, typ, data, m["fid"])]:
                res.add("reassembly", {"kind": "real_receiver", "routed": routed}, "the receiving node dequeued %r, sent: from 1 to %o type %d id %d %d bytes"
                        % ([(oct(e[1]), oct(e[2]), e[3], e[5], len(e[4])) for e in got], dst, typ, m["fid"], m["len"]))
    net.shutdown()
    res.isig = hashlib.blake2b(repr((scn["msgs"], scn.get("abort_at"), routed)).encode(), digest_size=8).hexdigest()
    res.sample = {"msgs": [(m["len"], m["type"], m["fid"]) for m in scn["msgs"]], "abort_at": scn.get("abort_at"), "routed": routed}
