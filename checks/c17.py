"""C17 - mesh joins yield distinct working addresses; lookups give documented codes.

One master task + 1..12 joiner tasks (RF24MeshNoMaster, some RF24Mesh with a non-zero id) with distinct seeded IDs
and start offsets; all run the canonical update() loop between their API calls.

Clauses, loss-free medium:
  join         renew_address() returns, within the given timeout (node's clock) a valid address != every other connected
               node's and equal to the master's table entry for its ID
  reach        a later send(to_id) is logged by that node when it returns True, and returns True when no other node is
               inside an API call at the same time (the network is best-effort under concurrent cross traffic)
  lookup       lookup_address()/lookup_node_id() = the master's mapping in force while the call ran; the documented trivial
               answers for 0 / None; -2 for unassigned; -1 only when no answer can have arrived
  undisturbed  no exception ever escapes the master's update(); lookups never change its table
  release      release_address() -> node back at 0o4444 and its lease gone
  connected    check_connection() is True exactly for connected nodes
The liveness-flavoured parts (send reaches / release frees / check_connection / -1 only without answer) are enforced in the
serialised runs (one API call at a time, network quiet in between, relay chain intact); the concurrent runs enforce the safety
parts (valid, distinct, recorded addresses; answers consistent with a table version in force; master undisturbed; termination).
With injected loss (separate configuration): only `safe` - no exception anywhere, every call terminates within
timeout + slack, renew_address() returns a valid address or None.
"""
from nrfsim.core import SimAbort, stream, MS, US, SEC
from nrfsim.harness import Result
from nrfsim.mcu import World, random_mcu_knobs
from checks import netref
from checks.netcommon import Net
from checks.c05 import payload

PROP = "C17"
LEVEL = "exploration"
RULE = ("seeded scenarios: master + 1..4 joiners (quick) / up to 12 with level-1 slots exhausted so that joins go through relays "
        "(thorough), in a third of the small runs a master table pre-filled with static leases that leave one free slot per level along a seeded chain (joins down to level 4, full parents), distinct random IDs 1..255, start offsets 0..300 ms, per-node MCU jitter; per joiner renew_address() then a "
        "seeded sequence of lookup_address / lookup_node_id (known, unknown, 0, None), send(to id), check_connection(both modes), "
        "release_address, re-join; a fifth of the small runs are the serialised families orphan (a node's relay releases its address, the node joins again) and master_down (the master's MCU stops, lookups behind a still-acknowledging first hop must give -1); 20 % of runs inject packet/ACK loss and enforce only the `safe` clause. Non-trivial: at least "
        "two nodes joined or a join went through a relay; distinct = distinct abstract event sequences")
ASSUMPTIONS = ["loss-free claims: collisions arise only from the schedule the library itself produces (M10)",
               "lookup answers are compared with every table version in force between call and return",
               "timing envelope of DESIGN.md 2.2 (SPI <= 400 us, poll <= 2 ms); all nodes of one run belong to one speed class (SPI cost within a factor 2): "
               "poll/address replies are unacknowledged by design and a much faster responder answers before the requester listens again"]
CLAUSES = {"join": "valid distinct address recorded under its ID within the timeout", "reach": "a message sent to its node ID arrives",
           "lookup": "master's current mapping, trivial answers, -2 / -1 codes", "undisturbed": "asking never disturbs the master",
           "release": "back to the unassigned address, lease freed", "connected": "check_connection() True exactly for connected nodes",
           "safe": "with loss: no exception, termination, valid-or-None"}
PROBES = ["collision", "serialised_call_checked", "join_via_relay", "join_at_level_4", "master_mcu_stopped", "orphan_rejoined", "fault:mcu_stall_on_rx", "master_busy_during_check", "peer_mcu_stopped", "relay_closed_during_exchange", "fault:outage_during_call", "fault:master_busy_during_confirmation"]
SHRINK_KEYS = ("joiners", "faults")
CHUNK = 2
MAX_INCONCLUSIVE = 0.03
WALL_CAP_S = 1500


def count(tier):
    return 160 if tier == "quick" else 2400


def exhaustive(tier):
    return False


def make(i, base_seed, tier):
    seed = base_seed * 1_000_003 + i
    rng = stream(seed, "work")
    kr = stream(seed, "knobs")
    big = tier == "thorough" and i % 15 == 0
    n = rng.randint(6, 12) if big else rng.randint(1, 4)
    ids = rng.sample(range(1, 256), n)
    lossy = rng.random() < 0.2 and not big
    # one speed class per run: replies to NETWORK_POLL / MESH_ADDR_REQUEST are unacknowledged by design, so a responder
    # that is several times faster than the requester answers before the requester's radio is back in RX mode
    speed = rng.choice([(5, 20), (20, 50), (50, 100), (100, 200), (200, 400)])

    def knobs():
        k = random_mcu_knobs(kr, fault=lossy, stalls=lossy)
        k["spi_overhead_us"] = rng.choice(speed)
        k["spi_jitter_us"] = k["spi_overhead_us"] // 4
        return k
    joiners = []
    for nid in ids:
        ops = [{"op": "renew", "timeout": rng.choice([7.5, 7.5, 4.0, 10.0])}]
        for _ in range(rng.randint(0, 5 if not big else 2)):
            k = rng.random()
            if k < 0.25:
                ops.append({"op": "lookup_address", "id": rng.choice(ids + [0, None, 251, 254])})
            elif k < 0.45:
                ops.append({"op": "lookup_node_id", "of": rng.choice(ids + ["zero", "none", "unknown"])})
            elif k < 0.65:
                ops.append({"op": "send", "to": rng.choice(ids + [0]), "len": rng.choice([0, 5, 24, 40]), "type": rng.choice([1, 33, 70]), "seed": rng.getrandbits(20)})
            elif k < 0.8:
                ops.append({"op": "check", "ping": rng.random() < 0.5})
            elif k < 0.9:
                ops.append({"op": "release"})
                if rng.random() < 0.6:
                    ops.append({"op": "renew", "timeout": 7.5})
            else:
                ops.append({"op": "pause", "ms": rng.randint(1, 200)})
        joiners.append({"id": nid, "cls": "mesh" if rng.random() < 0.8 else "master", "offset_ms": rng.randint(0, 300), "ops": ops,
                        "knobs": knobs()})
    faults = []
    if lossy:
        ar = stream(seed, "air")
        p = rng.choice([0.02, 0.05, 0.15])
        faults = [{"n": k} for k in range(6000) if ar.random() < p]
    # half of the small runs are serialised by the orchestrator (one API call at a time, network quiet in between): these are
    # the runs in which the liveness-flavoured clauses are enforced; the others exercise concurrency
    serial = (not big) and rng.random() < 0.5
    # pre-filled master table (static leases through the public set_address(), as a DHCP file would leave them): only one
    # slot per level stays free along a seeded chain, so that joins must go through relays down to level 4 and meet full parents
    prefill = {}
    if not big and rng.random() < 0.35:
        fake = [x for x in range(1, 256) if x not in ids]
        rng.shuffle(fake)
        d = [rng.randint(1, 5), rng.randint(1, 4), rng.randint(1, 4)]
        if rng.random() < 0.3:
            d = [4, 4, 4]      # the chain whose next child would be the unassigned-node address 0o4444
        chain = [d[0], d[0] | (d[1] << 3), d[0] | (d[1] << 3) | (d[2] << 6)]
        for a in [x for x in range(1, 6) if x != d[0]]:
            prefill[fake.pop()] = a
        depth = 3 if d == [4, 4, 4] else rng.randint(1, 3)
        for lv in range(1, depth):
            for k in range(1, 5):
                a = chain[lv - 1] | (k << (3 * lv))
                if a != chain[lv]:
                    prefill[fake.pop()] = a
        for j in joiners:
            # relays must stay where they are: the free slots of such a run are only reachable through them
            j["ops"] = [op for k, op in enumerate(j["ops"]) if k == 0 or op["op"] not in ("release", "renew")]
            for op in j["ops"]:
                if op["op"] == "renew":
                    op["timeout"] = 10.0
    scn = {"seed": seed, "serial": serial, "prefill": {str(k): v for k, v in prefill.items()}, "joiners": joiners, "lossy": lossy, "faults": faults, "master_knobs": dict(knobs(), stall_prob=0.0), "big": big}
    xr = stream(seed, "ext")
    fam = xr.random()
    if not big and fam < 0.2:
        # two targeted serialised families on a loss-free medium: level 1 has one free slot, node A takes it, node B has to join
        # below A.  (orphan) A then releases its address and B - whose relay is gone - joins again;  (master_down) the master's
        # MCU stops and B, whose first hop A still acknowledges, looks things up: the documented answer is -1
        ida, idb = xr.sample(range(1, 256), 2)
        fake = [x for x in range(1, 256) if x not in (ida, idb)]
        xr.shuffle(fake)
        d0 = xr.randint(1, 5)
        pf = {fake.pop(): a for a in range(1, 6) if a != d0}
        ka, kb = knobs(), knobs()
        for k_ in (ka, kb, scn["master_knobs"]):
            # these families are loss-free and claim liveness: no MCU stalls (they belong to the lossy configuration)
            k_.pop("stall_prob", None)
            k_.pop("stall_us", None)
        ja = {"id": ida, "cls": "mesh", "offset_ms": 0, "knobs": ka, "ops": [{"op": "renew", "timeout": 10.0}]}
        jb = {"id": idb, "cls": "mesh", "offset_ms": 0, "knobs": kb, "ops": [{"op": "renew", "timeout": 10.0}]}
        scn.update(serial=True, lossy=False, faults=[], prefill={str(k): v for k, v in pf.items()}, joiners=[ja, jb])
        if fam < 0.1:
            scn["family"] = "orphan"
            ja["ops"].append({"op": "release"})
            jb["ops"].append({"op": "renew", "timeout": 10.0})
            if xr.random() < 0.5:
                ja["ops"].append({"op": "renew", "timeout": 10.0})
                jb["ops"].append({"op": "lookup_address", "id": ida})
        else:
            scn["family"] = "master_down"
            after = []
            for _ in range(xr.randint(1, 3)):
                who = xr.choice([idb, idb, ida])
                if xr.random() < 0.5:
                    after.append({"id": who, "op": {"op": "lookup_node_id", "of": xr.choice([ida, idb, "unknown"]), "master_down": True}})
                else:
                    after.append({"id": who, "op": {"op": "lookup_address", "id": xr.choice([ida, idb, 251]), "master_down": True}})
            scn["after_master_down"] = after
    if not big and 0.2 <= fam < 0.3:
        # targeted serialised families (loss-free, no MCU stalls besides the explicit one):
        ids3 = xr.sample(range(1, 256), 3)
        fake = [x for x in range(1, 256) if x not in ids3]
        xr.shuffle(fake)
        kn = [knobs() for _ in range(3)]
        for k_ in kn + [scn["master_knobs"]]:
            k_.pop("stall_prob", None)
            k_.pop("stall_us", None)
        if fam < 0.25:
            # (long_then_release) a node's last frame before release_address() was a fragmented message to the master
            ida = ids3[0]
            ja = {"id": ida, "cls": "mesh", "offset_ms": 0, "knobs": kn[0],
                  "ops": [{"op": "renew", "timeout": 10.0}, {"op": "send", "to": 0, "len": xr.choice([25, 40, 60, 100]), "type": xr.choice([1, 33]), "seed": xr.getrandbits(20)},
                          {"op": "release"}]}
            jb = {"id": ids3[1], "cls": "mesh", "offset_ms": 0, "knobs": kn[1], "ops": [{"op": "renew", "timeout": 10.0}, {"op": "lookup_address", "id": ida}]}
            scn.update(serial=True, lossy=False, faults=[], prefill={}, joiners=[ja, jb], family="long_then_release")
        else:
            # (late_relay) level 1 is full with two real relays A and B; C joins below them.  A's MCU stalls (explicit fault) for longer
            # than C's per-contact wait right after A's radio stored the master's reply to C: the stale offer via A arrives while C is
            # asking B.  What C ends up using must be what the master's table says once everything is quiet
            d = xr.sample(range(1, 6), 2)
            pf = {fake.pop(): a_ for a_ in range(1, 6) if a_ not in d}
            js = [{"id": ids3[k_], "cls": "mesh", "offset_ms": 0, "knobs": kn[k_], "ops": [{"op": "renew", "timeout": 10.0}]} for k_ in range(3)]
            scn.update(serial=True, lossy=False, faults=[], prefill={str(k_): v for k_, v in pf.items()}, joiners=js, family="late_relay",
                       stall_on_rx={"ptype": 128, "ms": xr.uniform(222, 262), "relay_ids": ids3[:2]})
    if not big and 0.3 <= fam < 0.4:
        ids3 = xr.sample(range(1, 256), 3)
        kn = [knobs() for _ in range(3)]
        for k_ in kn + [scn["master_knobs"]]:
            k_.pop("stall_prob", None)
            k_.pop("stall_us", None)
        if fam < 0.35:
            # (busy_master) the master's application is busy - not calling update() - for longer than one lookup window (135 ms)
            # and shorter than two while a connected node asks check_connection(3, ping_master=True) / looks something up with the
            # remaining attempts of its own: the master is running, the medium loss-free, the node connected
            ja = {"id": ids3[0], "cls": "mesh", "offset_ms": 0, "knobs": kn[0], "ops": [{"op": "renew", "timeout": 10.0}]}
            scn.update(serial=True, lossy=False, faults=[], prefill={}, joiners=[ja], family="busy_master",
                       busy={"ms": xr.uniform(140, 200), "lead_ms": xr.uniform(0, 3), "attempts": xr.choice([3, 3, 4])})
        else:
            # (peer_down) three nodes join; one loses power (or only its MCU stops: its radio keeps acknowledging until its FIFO is
            # full, then goes deaf); the second keeps sending to its ID while the third looks things
            # up and pings: the master forwards for the stopped node, fails, retries - and must not lose the others' requests
            js = [{"id": ids3[k_], "cls": "mesh", "offset_ms": 0, "knobs": kn[k_], "ops": [{"op": "renew", "timeout": 10.0}]} for k_ in range(3)]
            scn.update(serial=True, lossy=False, faults=[], prefill={}, joiners=js, family="peer_down",
                       peer_down={"gone": xr.random() < 0.7, "sends": [{"len": xr.choice([0, 5, 24]), "type": xr.choice([1, 33, 70]), "seed": xr.getrandbits(20), "gap_ms": xr.randint(0, 30)} for _ in range(xr.randint(4, 8))],
                                  "asks": [{"what": xr.choice(["lookup_address", "lookup_node_id", "check"]), "gap_ms": xr.randint(0, 40)} for _ in range(xr.randint(4, 10))]})
    if not big and 0.4 <= fam < 0.46:
        # (relay_closes) level 1 has one free slot, A takes it, B joins below A; A's application switches allow_children off at the
        # instant A's radio stores the master's reply for B (explicit event): the exchange in progress completes all the same -
        # allow_children only decides whether a node answers NETWORK_POLL
        ida, idb = xr.sample(range(1, 256), 2)
        fake = [x for x in range(1, 256) if x not in (ida, idb)]
        xr.shuffle(fake)
        d0 = xr.randint(1, 5)
        pf = {fake.pop(): a for a in range(1, 6) if a != d0}
        ka, kb = knobs(), knobs()
        for k_ in (ka, kb, scn["master_knobs"]):
            k_.pop("stall_prob", None)
            k_.pop("stall_us", None)
        ja = {"id": ida, "cls": "mesh", "offset_ms": 0, "knobs": ka, "ops": [{"op": "renew", "timeout": 10.0}]}
        jb = {"id": idb, "cls": "mesh", "offset_ms": 0, "knobs": kb, "ops": [{"op": "renew", "timeout": 10.0}, {"op": "lookup_address", "id": idb}]}
        scn.update(serial=True, lossy=False, faults=[], prefill={str(k): v for k, v in pf.items()}, joiners=[ja, jb], family="relay_closes",
                   close_on_rx={"ptype": 128, "relay_id": ida, "for_id": idb})
    if not big and 0.54 <= fam < 0.58:
        # (confirm_lost) the master's application is busy for longer than both confirming lookups of a joining node last (2 x 135 ms),
        # from the instant the node's radio stores the address response: the node has to fall back to the unassigned address and
        # ask again - and joins once the master is back (its radio acknowledged the lookups all along)
        ida = xr.randint(1, 255)
        ka = knobs()
        for k_ in (ka, scn["master_knobs"]):
            k_.pop("stall_prob", None)
            k_.pop("stall_us", None)
        ja = {"id": ida, "cls": "mesh", "offset_ms": 0, "knobs": ka, "ops": [{"op": "renew", "timeout": 10.0}, {"op": "lookup_address", "id": ida}]}
        scn.update(serial=True, lossy=False, faults=[], prefill={}, joiners=[ja], family="confirm_lost",
                   stall_master_on_rx={"ptype": 128, "ms": xr.uniform(300, 360), "for_id": ida})
    if not big and 0.46 <= fam < 0.54:
        ids3 = xr.sample(range(1, 256), 3)
        fake = [x for x in range(1, 256) if x not in ids3]
        xr.shuffle(fake)
        kn = [knobs() for _ in range(3)]
        for k_ in kn + [scn["master_knobs"]]:
            k_.pop("stall_prob", None)
            k_.pop("stall_us", None)
        if fam < 0.5:
            # (outage) a connected node's call meets a complete outage of the medium (its release / message to the master fails
            # honestly), the medium heals, the node looks its own ID up: nothing of the failed call may reach the master afterwards -
            # the lookup is answered from the table as it stood, and asking changes nothing in it
            js = [{"id": ids3[k_], "cls": "mesh", "offset_ms": 0, "knobs": kn[k_], "ops": [{"op": "renew", "timeout": 10.0}]} for k_ in range(xr.randint(1, 2))]
            scn.update(serial=True, lossy=False, faults=[], prefill={}, joiners=js, family="outage",
                       outage={"during": xr.choice(["release", "release", "send", "check"]), "len": xr.choice([0, 5, 24, 40]), "type": xr.choice([1, 33, 70]),
                               "seed": xr.getrandbits(20), "then": xr.choice(["lookup_address", "lookup_address", "check", "lookup_node_id"])})
        else:
            # (two_relays) level 1 is full with two real relays A and B (the other slots are static leases); C has to join below
            # them and both relays answer its poll.  No fault at all: the join completes and the table agrees with what C uses
            d = xr.sample(range(1, 6), 2)
            pf = {fake.pop(): a_ for a_ in range(1, 6) if a_ not in d}
            js = [{"id": ids3[k_], "cls": "mesh", "offset_ms": 0, "knobs": kn[k_], "ops": [{"op": "renew", "timeout": 10.0}]} for k_ in range(3)]
            js[2]["ops"].append({"op": "lookup_address", "id": ids3[2]})
            scn.update(serial=True, lossy=False, faults=[], prefill={str(k_): v for k_, v in pf.items()}, joiners=js, family="two_relays")
    return scn


def run(scn):
    res = Result()
    w = World(scn["seed"], plan=scn.get("faults"), max_events=12_000_000, max_time=400 * SEC)
    net = None
    try:
        net = _run(scn, w, res)
    except SimAbort:
        pass
    finally:
        res.absorb_world(w)
        w.close()
    return res


def _run(scn, w, res):
    sim = w.sim
    history = []   # (time, table) versions at the master

    def post_call(nc, name):
        if nc.key == "M":
            t = dict(nc.node.dhcp_dict)
            if not history or history[-1][1] != t:
                history.append((sim.now, t))
    net = Net(w, post_call=post_call)
    mnc = net.add("M", "master", 0, knobs=scn["master_knobs"])
    prefill = {int(k): v for k, v in (scn.get("prefill") or {}).items()}
    for k, v in prefill.items():
        mnc.node.set_address(k, v)
    history.append((sim.now, dict(prefill)))
    idr = stream(scn["seed"], "frame_ids")
    mnc.mcu.next_id = idr.choice([0, 0, 0xFFF8, 0xFFFF, idr.getrandbits(16)])
    for j in scn["joiners"]:
        nc_ = net.add(j["id"], j["cls"], j["id"], knobs=j["knobs"])
        # each node's frame-id counter starts at a seeded value (new headers: one per lookup / mesh write), so 0xFFFD.. wraps in mid-run
        nc_.mcu.next_id = idr.choice([0, 0, 0xFFFD, 0xFFFE, 0xFFFF, idr.getrandbits(16)])
    if scn.get("stall_on_rx"):
        rule = scn["stall_on_rx"]
        target = [x["id"] for x in scn["joiners"]][2]
        fired = []
        for rid in rule["relay_ids"]:
            def on_store(pipe, data, rid=rid):
                # explicit fault: the first relay whose radio stores the master's MESH_ADDR_RESPONSE for the third joiner stalls
                if not fired and len(data) >= 10 and data[6] == rule["ptype"] and data[7] == (target & 0xFF):
                    fired.append(rid)
                    net.nodes[rid].mcu.pending_stall = int(rule["ms"] * MS)
                    sim.count("fault:mcu_stall_on_rx")
            net.nodes[rid].radio.on_store = on_store
    if scn.get("stall_master_on_rx"):
        rule_m = scn["stall_master_on_rx"]
        fired_m = []

        def on_store_m(pipe, data):
            if not fired_m and len(data) >= 10 and data[6] == rule_m["ptype"] and data[7] == (rule_m["for_id"] & 0xFF):
                fired_m.append(sim.now)
                mnc.mcu.pending_stall = int(rule_m["ms"] * MS)
                sim.count("fault:master_busy_during_confirmation")
        net.nodes[rule_m["for_id"]].radio.on_store = on_store_m
    if scn.get("close_on_rx"):
        rule = scn["close_on_rx"]
        closed = []

        def on_store_close(pipe, data):
            if not closed and len(data) >= 10 and data[6] == rule["ptype"] and data[7] == (rule["for_id"] & 0xFF):
                closed.append(sim.now)
                net.nodes[rule["relay_id"]].node.allow_children = False     # (a plain attribute: no SPI traffic)
                sim.count("relay_closed_during_exchange")
        net.nodes[rule["relay_id"]].radio.on_store = on_store_close
    net.start()
    sim.advance(2 * MS)
    lossy = scn.get("lossy", False)
    ids = [j["id"] for j in scn["joiners"]]
    cmds = {}

    def mk(j, op):
        def do(node):
            import circuitpython_nrf24l01.rf24_mesh as mm
            o = op["op"]
            if o == "pause":
                mm.time.sleep(op["ms"] / 1000)
                return None
            if o == "renew":
                t0 = mm.time.monotonic()
                r = node.renew_address(op["timeout"])
                return (r, mm.time.monotonic() - t0)
            if o == "release":
                return node.release_address()
            if o == "lookup_address":
                return node.lookup_address(op["id"]) if op["id"] is not None else node.lookup_address()
            if o == "lookup_node_id":
                of = op["of"]
                if of == "zero":
                    return (0, node.lookup_node_id(0))
                if of == "none":
                    return (None, node.lookup_node_id())
                if of == "unknown":
                    return (0o3, node.lookup_node_id(0o3) if 0o3 not in [n.node.node_address for n in net.nodes.values()] else None)
                if of not in net.nodes:
                    return (0o3, None)
                a = net.nodes[of].node.node_address
                return (a, node.lookup_node_id(a))
            if o == "send":
                return node.send(op["to"], op["type"], payload(op["seed"], op["len"]))
            if o == "check":
                return node.check_connection(2, op["ping"])
        return do

    if scn.get("serial"):
        queues = {j["id"]: [op for op in j["ops"] if op["op"] != "pause"] for j in scn["joiners"]}
        order = [j["id"] for j in scn["joiners"]]
        k = 0
        while any(queues.values()):
            nid = order[k % len(order)]
            k += 1
            if not queues[nid]:
                continue
            op = queues[nid].pop(0)
            j = next(x for x in scn["joiners"] if x["id"] == nid)
            c = net.post(nid, op["op"], mk(j, op))
            net.wait(c, timeout=120 * SEC, step=MS)
            net.wait_quiet(quiet=(320 if scn.get("family") == "late_relay" else 10) * MS, timeout=2 * SEC, step=MS)
            c.t_quiet = sim.now
            cmds.setdefault(nid, []).append((op, c))
    if scn.get("serial") and scn.get("after_master_down"):
        net.halt("M")          # the master's MCU stops; its radio stays as it is
        sim.advance(5 * MS)
        sim.count("master_mcu_stopped")
        for item in scn["after_master_down"]:
            if item["id"] not in net.nodes:
                continue
            j = next(x for x in scn["joiners"] if x["id"] == item["id"])
            c = net.post(item["id"], item["op"]["op"], mk(j, item["op"]))
            net.wait(c, timeout=120 * SEC, step=MS)
            net.wait_quiet(quiet=10 * MS, timeout=2 * SEC, step=MS)
            cmds.setdefault(item["id"], []).append((item["op"], c))
    if scn.get("family") == "busy_master" and scn.get("busy"):
        bz = scn["busy"]
        nid = scn["joiners"][0]["id"]
        nc_ = net.nodes[nid]
        if nc_.node.node_address != 0o4444:
            import circuitpython_nrf24l01.rf24_mesh as mm_
            net.post("M", "busy", lambda node: mm_.time.sleep(bz["ms"] / 1000))      # (an application that does something else for a while)
            sim.advance(int(bz["lead_ms"] * MS))
            c = net.post(nid, "check", lambda node: node.check_connection(bz["attempts"], True))
            net.wait(c, timeout=120 * SEC, step=MS)
            net.wait_quiet(quiet=10 * MS, timeout=2 * SEC, step=MS)
            sim.count("master_busy_during_check")
            if c.done and c.exc is None and c.result is not True:
                res.add("connected", {"kind": "check_connection_gave_up_early", "ping": True},
                        "check_connection(%d, ping_master=True) on connected id %d = %r after %.0f ms: the master's application was busy for %.0f ms (one lookup window is 135 ms), "
                        "the remaining attempts were not used" % (bz["attempts"], nid, c.result, (c.t1 - c.t0) / MS, bz["ms"]))
            cmds.setdefault(nid, []).append(({"op": "pause"}, c))
    if scn.get("family") == "outage" and scn.get("outage"):
        og = scn["outage"]
        nid = scn["joiners"][0]["id"]
        nc_ = net.nodes[nid]
        if all(net.nodes[j_["id"]].node.node_address != 0o4444 for j_ in scn["joiners"]):
            table0 = dict(mnc.node.dhcp_dict)
            addr0 = nc_.node.node_address
            w.air.blackout = True
            sim.count("fault:outage_during_call")
            if og["during"] == "release":
                c = net.post(nid, "release", lambda node: node.release_address())
            elif og["during"] == "send":
                c = net.post(nid, "send", lambda node: node.send(0, og["type"], payload(og["seed"], og["len"])))
            else:
                c = net.post(nid, "check", lambda node: node.check_connection(1, True))
            net.wait(c, timeout=120 * SEC, step=MS)
            w.air.blackout = False
            net.wait_quiet(quiet=10 * MS, timeout=2 * SEC, step=MS)
            if not c.done or c.exc is not None:
                res.add("safe", {"kind": "call_raised" if c.done else "call_did_not_return", "op": og["during"], "exc": type(c.exc).__name__},
                        "%s during an outage raised %r / did not return\n%s" % (og["during"], c.exc, (c.tb or "")[-1500:]))
            elif c.result not in (False, None, -1) and not (og["during"] == "check" and c.result is False):
                res.add("lookup" if og["during"] != "send" else "reach", {"kind": "success_during_outage", "op": og["during"]},
                        "%s returned %r although nothing the node transmitted reached anybody" % (og["during"], c.result))
            elif nc_.node.node_address == addr0:
                table1 = dict(mnc.node.dhcp_dict)
                if og["then"] == "lookup_address":
                    c2 = net.post(nid, "lookup_address", lambda node: node.lookup_address(nid))
                    want = table1.get(nid, -2)
                elif og["then"] == "lookup_node_id":
                    c2 = net.post(nid, "lookup_node_id", lambda node: node.lookup_node_id(addr0))
                    want = nid
                else:
                    c2 = net.post(nid, "check", lambda node: node.check_connection(2, True))
                    want = True
                net.wait(c2, timeout=120 * SEC, step=MS)
                net.wait_quiet(quiet=20 * MS, timeout=2 * SEC, step=MS)
                table2 = dict(mnc.node.dhcp_dict)
                if table2 != table1 or table1 != table0:
                    res.add("undisturbed", {"kind": "table_changed_by_lookup", "after": og["during"]},
                            "id %d: %s failed during an outage (returned %r); after the medium healed %s changed the master's table from %r to %r"
                            % (nid, og["during"], c.result, og["then"], table1, table2))
                elif c2.done and c2.exc is None and c2.result != want:
                    res.add("lookup" if og["then"] != "check" else "connected", {"kind": "wrong_answer_after_outage", "op": og["then"]},
                            "id %d at %o: %s = %r after a %s that failed during an outage; the master's table says %r (idle loss-free network)"
                            % (nid, addr0, og["then"], c2.result, og["during"], table1))
                elif not c2.done or c2.exc is not None:
                    res.add("safe", {"kind": "call_raised" if c2.done else "call_did_not_return", "op": og["then"], "exc": type(c2.exc).__name__},
                            "%s raised %r / did not return\n%s" % (og["then"], c2.exc, (c2.tb or "")[-1500:]))
    if scn.get("family") == "peer_down" and scn.get("peer_down"):
        pd = scn["peer_down"]
        ida, idb, idc = [j["id"] for j in scn["joiners"]]
        if all(net.nodes[x].node.node_address != 0o4444 for x in (ida, idb, idc)):
            net.halt(ida)
            if pd.get("gone", True):
                w.air.mute.add("n%s" % ida)      # the node lost power: nothing of it - link-layer acknowledgements included - reaches anybody
            sim.advance(2 * MS)
            sim.count("peer_mcu_stopped")
            addr_a = net.nodes[ida].node.node_address
            lb, lc = [], []
            for sd_ in pd["sends"]:
                lb.append((None, net.hold(idb, sd_["gap_ms"] * MS)))
                lb.append(({"op": "send", "to": ida, "len": sd_["len"], "type": sd_["type"], "seed": sd_["seed"], "peer_down": True},
                           net.post(idb, "send", lambda node, sd_=sd_: node.send(ida, sd_["type"], payload(sd_["seed"], sd_["len"])))))
            for ak in pd["asks"]:
                lc.append((None, net.hold(idc, ak["gap_ms"] * MS)))
                if ak["what"] == "lookup_address":
                    lc.append(({"op": "lookup_address", "id": idb, "peer_down": True}, net.post(idc, "lookup_address", lambda node: node.lookup_address(idb))))
                elif ak["what"] == "lookup_node_id":
                    lc.append(({"op": "lookup_node_id", "of": idb, "peer_down": True}, net.post(idc, "lookup_node_id", lambda node: (net.nodes[idb].node.node_address, node.lookup_node_id(net.nodes[idb].node.node_address)))))
                else:
                    lc.append(({"op": "check", "ping": True, "peer_down": True}, net.post(idc, "check", lambda node: node.check_connection(1, True))))
            for op_, c in lb + lc:
                net.wait(c, timeout=120 * SEC, step=MS)
                if op_ is not None and (not c.done or c.exc is not None):
                    res.add("lookup" if op_["op"] != "send" else "reach", {"kind": "call_raised" if c.done else "call_did_not_return", "op": op_["op"], "exc": type(c.exc).__name__},
                            "%s raised %r / did not return while a peer's MCU was stopped\n%s" % (op_["op"], c.exc, (c.tb or "")[-1500:]))
            net.wait_quiet(quiet=20 * MS, timeout=3 * SEC, step=MS)
            # cause-level clause: no packet is lost on this medium, so an unanswered request is only legitimate when the master's
            # radio could not take it (FIFO full while the master was busy re-trying); a node that throws away frames its radio had
            # received and acknowledged is the library's doing
            for (op_, c) in lc:
                if op_ is None or not c.done or c.exc is not None:
                    continue
                r_ = c.result[1] if isinstance(c.result, tuple) else c.result
                failed = (r_ == -1) if op_["op"] != "check" else (r_ is not True)
                drops = [(k, n) for k, nc2 in net.nodes.items() for (t, n) in nc2.radio.rx_discards if c.t0 <= t <= c.t1]
                if failed and drops:
                    res.add("lookup" if op_["op"] != "check" else "connected", {"kind": "received_frames_discarded", "op": op_["op"]},
                            "%s on id %d = %r while id %d kept sending to stopped id %d: node(s) %r flushed unread received frames out of their RX FIFO during the call"
                            % (op_["op"], idc, r_, idb, ida, [(k, n) for k, n in drops]))
                    break
            cmds.setdefault(idb, []).extend((None, c) for _, c in lb)
            cmds.setdefault(idc, []).extend((None, c) for _, c in lc)
    for j in ([] if scn.get("serial") else scn["joiners"]):
        lst = []
        lst.append((None, net.hold(j["id"], j["offset_ms"] * MS)))
        for op in j["ops"]:
            if op["op"] == "pause":
                lst.append((None, net.hold(j["id"], op["ms"] * MS)))
            else:
                lst.append((op, net.post(j["id"], op["op"], mk(j, op))))
        cmds[j["id"]] = lst
    # wait for everything
    for nid, lst in cmds.items():
        for op, c in lst:
            net.wait(c, timeout=120 * SEC, step=MS)
    net.wait_quiet(quiet=20 * MS, timeout=3 * SEC, step=MS)
    net.shutdown()
    master = net.nodes["M"].node
    final = dict(master.dhcp_dict)

    spans = [(nid2, c2.t0, c2.t1) for nid2, lst2 in cmds.items() for op2, c2 in lst2 if op2 is not None and op2["op"] != "pause" and c2.t0 is not None and c2.t1 is not None]

    def isolated(nid_, c_, types=(196, 198)):
        """no other node was inside an API call while this call ran, and nothing but this call's own frame types was on the
        air (aftermath of earlier calls included): the network is best-effort under concurrent traffic"""
        if not scn.get("serial"):
            # only the serialised runs guarantee a quiet network before the call: in the concurrent runs frames of earlier
            # calls (late replies, link-layer re-transmissions) may still be in flight - best effort applies
            return False
        if any(n2 != nid_ and a < c_.t1 and b > c_.t0 for (n2, a, b) in spans):
            return False
        me = addr_during(nid_, c_.t0 - 1, c_.t0 - 1)      # (just before the call: a release's own start already marks a transition)
        if me is None or me == 0o4444 or not chain_alive(me, c_.t0 - 5 * MS, c_.t1):
            return False     # orphaned: a relay between this node and the master has left
        return True     # (serialised runs wait for a quiet network before every call: nothing of earlier calls is in flight)

    timeline = {}   # node id -> [(time, address)] from the results of its own renew/release calls
    for nid2, lst2 in cmds.items():
        tl = [(0, 0o4444)]
        for op2, c2 in lst2:
            if op2 is None or not c2.done or c2.exc is not None:
                continue
            if op2["op"] == "renew":
                tl.append((c2.t0, 0o4444))
                if c2.result[0] is not None:
                    tl.append((c2.t1, c2.result[0]))
            elif op2["op"] == "release" and c2.result is True:
                tl.append((c2.t0, None))      # in transition
                tl.append((c2.t1, 0o4444))
        timeline[nid2] = tl

    def addr_during(nid2, t0, t1):
        """the node's address if it was constant over [t0, t1], else None"""
        tl = timeline.get(nid2, [])
        cur = None
        for (t, a) in tl:
            if t <= t0:
                cur = a
            elif t <= t1:
                return None
        return cur

    def chain_alive(addr, t0, t1):
        """every ancestor of `addr` below the master is the constant address of some running node during [t0, t1]"""
        a = netref.parent(addr) if addr else None
        while a:
            if not any(addr_during(n2, t0, t1) == a for n2 in timeline):
                return False
            a = netref.parent(a)
        return True

    def answer_arrived(nc_, c_, my_addr=None, typ=None):
        """sniffer: the reply to *this* call's request (same type, echoing the frame id of a request this node put on the air
        during the call) was stored by the node's radio early enough to be read before the call returned"""
        name = "n%s" % nc_.key
        margin = 2 * nc_.mcu.poll_ns + 5 * MS
        req_ids = set()
        for t in w.air.trace:
            d_ = t["data"]
            if not t["ack"] and t["src"] == name and len(d_) >= 8 and d_[6] == typ and c_.t0 <= t["t0"] <= c_.t1 and (d_[0] | (d_[1] << 8)) == my_addr:
                req_ids.add(d_[4] | (d_[5] << 8))
        for t in w.air.trace:
            d_ = t["data"]
            if t["ack"] or len(d_) < 8 or d_[6] != typ or (d_[4] | (d_[5] << 8)) not in req_ids:
                continue
            if c_.t0 <= t["t1"] <= c_.t1 - margin and (name, "stored") in [tuple(x) for x in t["rx"]] and (d_[2] | (d_[3] << 8)) == (d_[0] | (d_[1] << 8)) == my_addr and t["src"] != name:
                return True
        return False

    def tables(t0, t1):
        out = []
        for k, (t, tab) in enumerate(history):
            nxt = history[k + 1][0] if k + 1 < len(history) else None
            if t <= t1 and (nxt is None or nxt >= t0):
                out.append(tab)
        return out or [history[-1][1]]

    # ---- exceptions anywhere
    for key, nc in net.nodes.items():
        for (t, e, tb) in nc.update_exc:
            res.add("undisturbed" if key == "M" else "safe", {"kind": "update_raised", "exc": type(e).__name__, "who": "master" if key == "M" else "node"},
                    "update() on %s raised %r\n%s" % (key, e, tb[-1500:]))
    for (t, tab) in history:
        foreign = {k: v for k, v in tab.items() if k not in ids and prefill.get(k) != v}
        lost = [k for k in prefill if tab.get(k) != prefill[k]]
        if foreign or lost:
            res.add("undisturbed", {"kind": "foreign_lease" if foreign else "static_lease_lost"},
                    "the master's table held %r for IDs that never asked (joiners %r); static leases changed: %r" % ({k: oct(v) for k, v in foreign.items()}, ids, lost))
            break
    joined = 0
    via_relay = False
    for nid, lst in cmds.items():
        nc = net.nodes[nid]
        connected = False
        cur_addr = None
        for op, c in lst:
            if op is None:
                continue
            o = op["op"]
            if not c.done:
                res.add("safe" if lossy else "join", {"kind": "call_did_not_return", "op": o}, "%s on node id %d did not return within 120 s" % (o, nid))
                return net
            if c.exc is not None:
                res.add("safe" if lossy else ("join" if o == "renew" else "lookup"), {"kind": "call_raised", "op": o, "exc": type(c.exc).__name__}, "%s on node id %d raised %r\n%s" % (o, nid, c.exc, c.tb[-1500:]))
                continue
            r = c.result
            if scn.get("serial") and not lossy:
                sim.count("serialised_call_checked")   # reach probe: calls for which the liveness-flavoured clauses are enforced
            if o == "renew":
                addr, dur = r
                if addr is not None and (not netref.valid_addr_doc(addr) or addr in (0, 0o4444)):
                    res.add("safe" if lossy else "join", {"kind": "invalid_address"}, "renew_address() on id %d returned %r" % (nid, addr))
                if dur > op["timeout"] + 1.0:
                    res.add("safe" if lossy else "join", {"kind": "timeout_exceeded"}, "renew_address(%.1f) on id %d took %.2f s" % (op["timeout"], nid, dur))
                connected = addr is not None
                cur_addr = addr
                if lossy:
                    continue
                if addr is None:
                    res.add("join", {"kind": "join_failed", "joiners": min(len(ids), 5)}, "renew_address(%.1f) on id %d returned None on a loss-free medium after %.2f s (%d joiners)" % (op["timeout"], nid, dur, len(ids)))
                    continue
                joined += 1
                if scn.get("family") == "orphan" and any(o2 is op for o2 in [x[0] for x in lst][1:]):
                    sim.count("orphan_rejoined")
                if netref.level(addr) > 1:
                    via_relay = True
                    sim.count("join_via_relay")
                if netref.level(addr) == 4:
                    sim.count("join_at_level_4")
                tq = getattr(c, "t_quiet", None)
                if scn.get("stall_on_rx"):
                    # a relay stalled for longer than the per-contact wait (outside the property's timing premise: a stale request it
                    # forwards afterwards may move the lease at the master on any tree).  What remains checkable is the protocol rule
                    # that keeps a node from taking a stale offer: the address it accepted is a child of the contact it last asked
                    name = "n%s" % nc.key
                    asked = [t for t in w.air.trace if t["src"] == name and not t["ack"] and len(t["data"]) >= 8 and t["data"][6] == 195 and c.t0 <= t["t0"] <= c.t1]
                    if asked:
                        contact = asked[-1]["data"][2] | (asked[-1]["data"][3] << 8)
                        if netref.parent(addr) != contact:
                            res.add("join", {"kind": "accepted_offer_of_another_contact"}, "id %d returned %o from renew_address() while the contact it had last asked was %o: an offer that came through another relay was accepted"
                                    % (nid, addr, contact))
                elif scn.get("serial") and tq is not None and tables(tq, tq)[-1].get(nid) != addr:
                    # serialised run: nothing else is going on - once the network is quiet the master's table says what the node uses
                    res.add("join", {"kind": "table_disagrees_after_quiescence"}, "id %d uses %o (returned by renew_address()), the master's table, once the network was quiet, maps it to %s"
                            % (nid, addr, oct(tables(tq, tq)[-1][nid]) if nid in tables(tq, tq)[-1] else None))
                if not any(tab.get(nid) == addr for tab in tables(c.t0, c.t1 + 50 * MS)):
                    res.add("join", {"kind": "not_in_master_table"}, "id %d was given %o but the master's table held %r for it" % (nid, addr, [oct(t[nid]) if nid in t else None for t in tables(c.t0, c.t1)][-1]))
                continue
            if lossy:
                continue
            if o == "release":
                if r is True:
                    connected = False
                    if nc.node.node_address != 0o4444 and c is lst[-1][1]:
                        res.add("release", {"kind": "address_kept"}, "release_address() returned True but node id %d is still at %o" % (nid, nc.node.node_address))
                    if c is lst[-1][1] and nid in final and isolated(nid, c, (197,)):
                        res.add("release", {"kind": "lease_kept"}, "release_address() returned True but the master still maps id %d to %o" % (nid, final[nid]))
                elif connected and r is not True and isolated(nid, c, (197,)):
                    res.add("release", {"kind": "release_failed"}, "release_address() on connected id %d returned %r on a loss-free medium" % (nid, r))
            elif o == "lookup_address":
                q = op["id"]
                if op.get("master_down"):
                    if connected and r != -1:
                        res.add("lookup", {"kind": "answer_without_master"}, "lookup_address(%d) on id %d = %r although the master's MCU had stopped: documented -1 (no answer)" % (q, nid, r))
                    continue
                if not q:
                    if r != 0:
                        res.add("lookup", {"kind": "trivial_answer"}, "lookup_address(%r) = %r, documented 0" % (q, r))
                elif not connected:
                    if r != -2:
                        res.add("lookup", {"kind": "unconnected_code"}, "lookup_address(%r) on an unconnected node = %r, documented -2" % (q, r))
                else:
                    ok = {tab.get(q, -2) for tab in tables(c.t0, c.t1)}
                    if r not in ok and r != -1:
                        res.add("lookup", {"kind": "wrong_address", "negative": r < 0, "want_negative": min(ok) < 0}, "lookup_address(%d) = %r; master's mapping during the call: %r" % (q, r, sorted(ok)))
                    elif r == -1 and answer_arrived(nc, c, cur_addr, 196):
                        res.add("lookup", {"kind": "answer_ignored"}, "lookup_address(%d) = -1 (no answer) although the master's reply reached the node's radio in time" % q)
                    elif r == -1 and isolated(nid, c):
                        res.add("lookup", {"kind": "no_answer"}, "lookup_address(%d) = -1 (no answer) on a loss-free medium with no other call in progress anywhere" % q)
            elif o == "lookup_node_id":
                a, got = r
                if got is None:
                    continue
                if op.get("master_down"):
                    if connected and got != -1:
                        res.add("lookup", {"kind": "answer_without_master"}, "lookup_node_id(%o) on id %d = %r although the master's MCU had stopped: documented -1 (no answer)" % (a, nid, got))
                    continue
                if a is None:
                    if got != nid:
                        res.add("lookup", {"kind": "trivial_answer"}, "lookup_node_id() = %r, documented own id %d" % (got, nid))
                elif a == 0:
                    if got != 0:
                        res.add("lookup", {"kind": "trivial_answer"}, "lookup_node_id(0) = %r, documented 0" % got)
                elif not connected:
                    if got != -2:
                        res.add("lookup", {"kind": "unconnected_code"}, "lookup_node_id(%o) on an unconnected node = %r, documented -2" % (a, got))
                else:
                    ok = set()
                    for tab in tables(c.t0, c.t1):
                        inv = {v: k for k, v in tab.items()}
                        ok.add(inv.get(a, -2))
                    if a == 0o4444:
                        ok.add(-2)
                    if got not in ok and got != -1:
                        res.add("lookup", {"kind": "wrong_id", "negative": got < 0, "want_negative": min(ok) < 0}, "lookup_node_id(%o) = %r; master's mapping during the call: %r" % (a, got, sorted(ok)))
                    elif got == -1 and answer_arrived(nc, c, cur_addr, 198):
                        res.add("lookup", {"kind": "answer_ignored"}, "lookup_node_id(%o) = -1 (no answer) although the master's reply reached the node's radio in time" % a)
                    elif got == -1 and isolated(nid, c):
                        res.add("lookup", {"kind": "no_answer"}, "lookup_node_id(%o) = -1 (no answer) on a loss-free medium with no other call in progress anywhere" % a)
            elif o == "check":
                # (a negative answer under concurrent traffic may be a lost ping/lookup: best effort)
                if bool(r) != connected and (r or isolated(nid, c, (196, 198, 130))):
                    res.add("connected", {"kind": "check_connection", "ping": op["ping"], "connected": connected},
                            "check_connection(ping_master=%s) on id %d = %r, node %s connected" % (op["ping"], nid, r, "is" if connected else "is not"))
            elif o == "send":
                to = op["to"]
                data = payload(op["seed"], op["len"])
                tgt = net.nodes["M"] if to == 0 else net.nodes.get(to)
                tgt_conn = to == 0 or any(to in tab for tab in tables(c.t0, c.t1))
                if to == nid:
                    continue
                if connected and tgt_conn and len(data) <= 24 and tgt is not None:
                    hit = [e for e in tgt.log if e[4] == data and e[3] == op["type"]]
                    stable = all(to == 0 or tab.get(to) == tables(c.t0, c.t1)[0].get(to) for tab in tables(c.t0, c.t1))
                    at_home = to == 0 or (to in net.nodes and net.nodes[to].node.node_address == final.get(to))
                    if r is True and not hit and stable and at_home and isolated(nid, c, (196, 198, 193, op["type"])):
                        res.add("reach", {"kind": "not_delivered"}, "send(to id %d) from id %d returned True but the message is not in that node's log" % (to, nid))
                    elif r is not True and stable and isolated(nid, c, (196, 198, 193, op["type"])) and final.get(to) is not None and to in ids and net.nodes[to].node.node_address == final.get(to):
                        res.add("reach", {"kind": "send_failed"}, "send(to id %d) from connected id %d returned %r on a loss-free medium" % (to, nid, r))
                elif not connected and r is not False:
                    res.add("reach", {"kind": "send_from_unconnected"}, "send() from unconnected id %d returned %r" % (nid, r))
    # ---- distinct addresses among finally connected nodes
    if not lossy:
        seen = {}
        for nid in ids:
            a = net.nodes[nid].node.node_address
            if a == 0o4444 or final.get(nid) != a:
                continue   # connected = the master's table agrees (a release whose outcome was lost to cross traffic is best effort)
            if a in seen:
                res.add("join", {"kind": "duplicate_address"}, "ids %d and %d both ended at address %o" % (seen[a], nid, a))
            seen[a] = nid
    res.nontrivial = joined >= 2 or via_relay or (joined >= 1 and len(ids) == 1)
    res.sample = {"ids": ids, "lossy": lossy, "ops": {j["id"]: [o["op"] for o in j["ops"]] for j in scn["joiners"]},
                  "final_table": {k: oct(v) for k, v in final.items() if k in ids}, "static_leases": len(prefill), "serial": scn.get("serial"), "joined": joined, "via_relay": via_relay}
    return net


def same_class(a, b):
    return (a.get("kind"), a.get("op"), a.get("exc")) == (b.get("kind"), b.get("op"), b.get("exc"))
