"""Independent bit-serial BLE advertising-channel codec, written from the Bluetooth Core specification
(Vol 6 Part B: 1.2 bit ordering, 2.3 advertising PDU, 3.1.1 CRC, 3.2 whitening).  Shares no code with
fake_ble.py.  Everything works on lists of bits in on-air order.

The nRF24L01 shifts payload bytes out MSBit first, BLE sends every field LSBit first - the only place this
module knows about the nRF24 is `nrf_bits`/`nrf_bytes`.
"""

RF_CH_TO_BLE = {2: 37, 26: 38, 80: 39}


def nrf_bits(payload):
    """payload bytes as handed to / read from the nRF24 -> bits in on-air order"""
    return [(byte >> i) & 1 for byte in payload for i in range(7, -1, -1)]


def nrf_bytes(bits):
    return bytes(sum(bits[i + j] << (7 - j) for j in range(8)) for i in range(0, len(bits) - 7, 8))


def lsb_bits(data):
    """BLE field bytes -> on-air bits (LSBit first)"""
    return [(byte >> i) & 1 for byte in data for i in range(8)]


def lsb_bytes(bits):
    return bytes(sum(bits[i + j] << j for j in range(8)) for i in range(0, len(bits) - 7, 8))


def whiten(bits, ble_channel):
    """7-bit LFSR x^7 + x^4 + 1; position 0 = 1, positions 1..6 = channel index MSB..LSB"""
    reg = [1] + [(ble_channel >> (5 - i)) & 1 for i in range(6)]
    out = []
    for b in bits:
        o = reg[6]
        out.append(b ^ o)
        new = [o] + reg[0:6]
        new[4] ^= o
        reg = new
    return out


def crc24(bits, init=0x555555):
    """24-bit LFSR, polynomial x^24 + x^10 + x^9 + x^6 + x^4 + x^3 + x + 1; returns bits in transmit order"""
    reg = [(init >> i) & 1 for i in range(24)]
    for b in bits:
        fb = reg[23] ^ b
        new = [fb] + reg[:23]
        for t in (1, 3, 4, 6, 9, 10):
            new[t] ^= fb
        reg = new
    return [reg[i] for i in range(23, -1, -1)]


def parse_ads(advdata):
    """AD structures -> list of (type, data); returns (list, well_formed)"""
    out, i = [], 0
    while i < len(advdata):
        ln = advdata[i]
        if ln == 0 or i + 1 + ln > len(advdata):
            return out, False
        out.append((advdata[i + 1], bytes(advdata[i + 2: i + 1 + ln])))
        i += 1 + ln
    return out, True


def decode(payload, rf_ch):
    """32 received/sniffed nRF24 payload bytes -> dict, or None when the length byte is impossible."""
    ch = RF_CH_TO_BLE[rf_ch]
    bits = whiten(nrf_bits(payload), ch)
    hdr = lsb_bytes(bits[:16])
    n = hdr[1] & 0x3F
    end = 16 + 8 * n
    if end + 24 > len(bits) or n < 6:
        return None
    pdu = lsb_bytes(bits[:end])
    ads, ok_struct = parse_ads(pdu[8:])
    return {"hdr0": hdr[0], "len_byte": hdr[1], "n": n, "mac": pdu[2:8], "advdata": pdu[8:], "ads": ads,
            "ads_ok": ok_struct, "crc_ok": bits[end:end + 24] == crc24(bits[:end]), "pdu": pdu}


def encode(pdu, rf_ch, pad_to=32, bad_crc=False):
    """PDU bytes (header + payload, no CRC) -> nRF24 payload bytes for that channel (zero padded on air)"""
    ch = RF_CH_TO_BLE[rf_ch]
    bits = lsb_bits(pdu)
    c = crc24(bits)
    if bad_crc:
        c[5] ^= 1
    out = nrf_bytes(whiten(bits + c, ch))
    return out + bytes(max(0, pad_to - len(out)))


def make_pdu(mac, advdata, hdr0=0x42, length=None):
    n = 6 + len(advdata) if length is None else length
    return bytes([hdr0, n]) + bytes(mac) + bytes(advdata)


def ad(typ, data):
    return bytes([len(data) + 1, typ]) + bytes(data)
