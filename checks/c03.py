"""C03 - setters program the radio with the documented encoding; getters agree.

One chip (plus / non-plus, clean / dirty registers), one RF24 object, histories of configuration
calls.  Reference: checks/ref_rf24.py (independent encoder from register map + documentation).

Clauses:
  encoding   after each call every configuration register equals the reference (registers not owned by
             the attribute must be unchanged - this subsumes the 'footprint' clause of the design)
  getters    each getter returns the reference value
  raises     exceptions are raised exactly where documented (and then no register changes)
  lint       no W_REGISTER carries a reserved/illegal value (SETUP_AW=0 only via address_length as documented)
  cache      the driver's cached view equals the radio: entering the object's `with` block, which writes the
             cache to the radio, changes no configuration register (CONFIG.PWR_UP masked)
"""
import io
import contextlib

from nrfsim.core import SimAbort, stream, MS
from nrfsim.harness import Result
from nrfsim.mcu import World
from checks.ref_rf24 import Ref, ANY, CFG_REGS
from circuitpython_nrf24l01.rf24 import RF24

PROP = "C03"
LEVEL = "exploration"
RULE = ("small-scope sweep: all ordered pairs of (call, canonical argument) over the configuration alphabet on "
        "every chip configuration (plus/non-plus x clean/dirty; quick: rotating) + seeded triples + seeded "
        "histories to depth 40 with arguments from the documented domain and beyond (negative, 0, boundary, "
        "oversize, wrong pipe numbers, bool/int/list forms); each call compared with an independent reference "
        "encoder. Non-trivial: at least one register-changing call was accepted; distinct = distinct (call-name "
        "sequence, chip configuration)")
ASSUMPTIONS = ["register map and write masks of the chip model follow the nRF24L01+ datasheet",
               "where docs and code disagree on an out-of-domain argument without any register becoming illegal "
               "(pa_level invalid: docs 'default 0 dBm' / code ValueError; crc negative: docs 'clamped' / code magnitude) both are accepted",
               "non-plus chips: start/stop_carrier_wave are skipped inside the histories (documented to overwrite configuration); a third of the non-plus runs end with the carrier test followed by the documented restore (`with nrf: pass`)",
               "addresses of 1..5 bytes only"]
CLAUSES = {"encoding": "registers hold exactly the documented encoding; no foreign register/bit altered",
           "getters": "every getter returns the value in effect", "raises": "clamped or rejected as documented",
           "lint": "no out-of-range or reserved value is written", "cache": "cached view equals the radio"}
SHRINK_KEYS = ("ops",)
CHUNK = 200

ADDRS = ["3131313131", "c2c2c2c2c2", "e7", "0102", "a1b2c3", "ffeeddcc", "0000000000"]


def _h(x):
    return {"hex": x}


CANON = [
    ["set_channel", 0], ["set_channel", 125], ["set_channel", 126], ["set_channel", -1], ["get_channel"],
    ["set_data_rate", 1], ["set_data_rate", 2], ["set_data_rate", 250], ["set_data_rate", 3], ["get_data_rate"],
    ["set_pa_level", -18], ["set_pa_level", -12], ["set_pa_level", -6], ["set_pa_level", 0], ["set_pa_level", [-12, False]],
    ["set_pa_level", [0, True]], ["set_pa_level", 20], ["set_pa_level", [-6]], ["get_pa_level"], ["get_is_lna_enabled"],
    ["set_crc", 0], ["set_crc", 1], ["set_crc", 2], ["set_crc", 3], ["set_crc", -1], ["get_crc"],
    ["set_address_length", 3], ["set_address_length", 4], ["set_address_length", 5], ["set_address_length", 2],
    ["set_address_length", 6], ["get_address_length"],
    ["set_arc", 0], ["set_arc", 15], ["set_arc", 16], ["set_arc", -1], ["get_arc"],
    ["set_ard", 250], ["set_ard", 4000], ["set_ard", 4001], ["set_ard", 0], ["set_ard", 1600], ["get_ard"],
    ["set_auto_retries", 1500, 15], ["set_auto_retries", 100, -3], ["set_auto_retries", 9000, 99], ["get_auto_retries"],
    ["set_auto_ack", True], ["set_auto_ack", False], ["set_auto_ack", 0x3E], ["set_auto_ack", 0xC1],
    ["set_auto_ack", [1, -1, 0, 1, -1, 0, 1]], ["set_auto_ack", "x"], ["get_auto_ack"],
    ["set_auto_ack_pipe", True, 0], ["set_auto_ack_pipe", False, 5], ["set_auto_ack_pipe", False, None],
    ["set_auto_ack_pipe", True, 6], ["set_auto_ack_pipe", True, -1], ["get_auto_ack_pipe", 0], ["get_auto_ack_pipe", 6],
    ["set_dynamic_payloads", True], ["set_dynamic_payloads", False], ["set_dynamic_payloads", 0x15],
    ["set_dynamic_payloads", [0, -1, 1]], ["set_dynamic_payloads", 1.5], ["get_dynamic_payloads"],
    ["set_dynamic_payloads_pipe", True, 2], ["set_dynamic_payloads_pipe", False, 0], ["set_dynamic_payloads_pipe", False, None],
    ["set_dynamic_payloads_pipe", True, 6], ["get_dynamic_payloads_pipe", 3], ["get_dynamic_payloads_pipe", -1],
    ["set_payload_length", 1], ["set_payload_length", 32], ["set_payload_length", 33], ["set_payload_length", 0],
    ["set_payload_length", -4], ["set_payload_length", [8, 0, 40, -1, 16]], ["set_payload_length", "8"], ["get_payload_length"],
    ["set_payload_length_pipe", 8, 0], ["set_payload_length_pipe", 40, 2], ["set_payload_length_pipe", 0, 5],
    ["set_payload_length_pipe", 16, None], ["set_payload_length_pipe", 8, 6], ["set_payload_length_pipe", 8, -1],
    ["get_payload_length_pipe", 2], ["get_payload_length_pipe", 6], ["get_payload_length_pipe", -1],
    ["set_ack", True], ["set_ack", False], ["get_ack"],
    ["set_allow_ask_no_ack", True], ["set_allow_ask_no_ack", False], ["get_allow_ask_no_ack"],
    ["interrupt_config", True, True, True], ["interrupt_config", False, True, False], ["interrupt_config", True, False, True],
    ["interrupt_config", False, False, False],
    ["set_power", True], ["set_power", False], ["get_power"],
    ["set_listen", True], ["set_listen", False], ["get_listen"],
    ["open_rx_pipe", 0, _h(ADDRS[0])], ["open_rx_pipe", 1, _h(ADDRS[1])], ["open_rx_pipe", 2, _h(ADDRS[2])],
    ["open_rx_pipe", 5, _h(ADDRS[4])], ["open_rx_pipe", 0, _h(ADDRS[3])], ["open_rx_pipe", 6, _h(ADDRS[0])],
    ["open_rx_pipe", -1, _h(ADDRS[0])], ["open_rx_pipe", 1, _h("")],
    ["close_rx_pipe", 0], ["close_rx_pipe", 1], ["close_rx_pipe", 5], ["close_rx_pipe", 6], ["close_rx_pipe", -1],
    ["open_tx_pipe", _h(ADDRS[0])], ["open_tx_pipe", _h(ADDRS[5])], ["open_tx_pipe", _h(ADDRS[3])],
    ["get_address", -1], ["get_address", 0], ["get_address", 1], ["get_address", 4], ["get_address", 6], ["get_address", -7],
    ["start_carrier_wave"], ["stop_carrier_wave"], ["print_details", False], ["print_details", True], ["get_is_plus_variant"],
]
NCANON = len(CANON)
CHIPCFGS = [(True, False), (True, True), (False, False), (False, True)]  # (plus, dirty)


def count(tier):
    if tier == "quick":
        return NCANON * NCANON + 2500
    return NCANON * NCANON * 4 + 30000 + 60000


def exhaustive(tier):
    return False


def _rand_arg_int(rng, lo, hi):
    return rng.choice([lo, hi, lo - 1, hi + 1, 0, -1, rng.randint(lo, hi), rng.randint(lo - 50, hi + 50)])


def _rand_op(rng):
    op = list(rng.choice(CANON))
    n = op[0]
    if rng.random() < 0.5:
        return op
    if n == "set_channel":
        op[1] = _rand_arg_int(rng, 0, 125)
    elif n == "set_crc":
        op[1] = _rand_arg_int(rng, 0, 2)
    elif n == "set_address_length":
        op[1] = _rand_arg_int(rng, 3, 5)
    elif n == "set_arc":
        op[1] = _rand_arg_int(rng, 0, 15)
    elif n == "set_ard":
        op[1] = _rand_arg_int(rng, 250, 4000)
    elif n == "set_auto_retries":
        op[1], op[2] = _rand_arg_int(rng, 250, 4000), _rand_arg_int(rng, 0, 15)
    elif n in ("set_auto_ack", "set_dynamic_payloads"):
        k = rng.random()
        if k < 0.3:
            op[1] = rng.random() < 0.5
        elif k < 0.6:
            op[1] = rng.randint(0, 255)
        else:
            op[1] = [rng.choice([-1, 0, 1, 2]) for _ in range(rng.randint(0, 8))]
    elif n in ("set_auto_ack_pipe", "set_dynamic_payloads_pipe"):
        op[1], op[2] = rng.random() < 0.5, rng.choice([None, -1, 0, 1, 2, 3, 4, 5, 6])
    elif n in ("get_auto_ack_pipe", "get_dynamic_payloads_pipe", "get_payload_length_pipe"):
        op[1] = rng.choice([-1, 0, 1, 2, 3, 4, 5, 6])
    elif n == "set_payload_length":
        if rng.random() < 0.5:
            op[1] = _rand_arg_int(rng, 1, 32)
        else:
            op[1] = [rng.choice([-1, 0, 1, 8, 32, 33, 200]) for _ in range(rng.randint(0, 8))]
    elif n == "set_payload_length_pipe":
        op[1], op[2] = _rand_arg_int(rng, 1, 32), rng.choice([None, -1, 0, 1, 2, 3, 4, 5, 6])
    elif n == "interrupt_config":
        op[1:] = [rng.random() < 0.5 for _ in range(3)]
    elif n == "open_rx_pipe":
        ln = rng.randint(1, 5)
        op[1], op[2] = rng.choice([0, 0, 1, 1, 2, 3, 4, 5]), _h(bytes(rng.getrandbits(8) for _ in range(ln)).hex())
    elif n == "open_tx_pipe":
        ln = rng.randint(1, 5)
        op[1] = _h(bytes(rng.getrandbits(8) for _ in range(ln)).hex())
    elif n == "close_rx_pipe":
        op[1] = rng.randint(0, 5)
    elif n == "set_pa_level":
        lv = rng.choice([-18, -12, -6, 0])
        op[1] = rng.choice([lv, [lv, rng.random() < 0.5], (lv, 1)])
        if isinstance(op[1], tuple):
            op[1] = list(op[1])
    return op


def make(i, base_seed, tier):
    seed = base_seed * 1_000_003 + i
    rng = stream(seed, "work")
    npairs = NCANON * NCANON
    nsweep = npairs if tier == "quick" else npairs * 4
    if i < nsweep:
        j = i % npairs
        chip = CHIPCFGS[(i // npairs) if tier == "thorough" else (i % 4)]
        ops = [CANON[j // NCANON], CANON[j % NCANON]]
        kind = "pair"
    elif tier == "thorough" and i < nsweep + 30000:
        chip = rng.choice(CHIPCFGS)
        ops = [rng.choice(CANON) for _ in range(3)]
        kind = "triple"
    else:
        chip = rng.choice(CHIPCFGS)
        ops = [_rand_op(rng) for _ in range(rng.randint(3, 40))]
        kind = "history"
    return {"seed": seed, "plus": chip[0], "dirty": chip[1], "ops": ops, "kind": kind,
            "backend": rng.choice(["spidev", "busio"])}


def dirty_chip(radio, rng):
    """Registers/addresses left behind by a previous program (an MCU reset does not reset the radio)."""
    from nrfsim.chip import WMASK
    for reg, mask in WMASK.items():
        v = rng.getrandbits(8) & mask
        if reg == 3:
            v = rng.choice([1, 2, 3])
        if reg == 6:
            v &= ~0x20 if v & 0x08 else 0xFF
        if 0x11 <= reg <= 0x16:
            v = rng.randint(0, 32)
        radio.r[reg] = v
    for reg in (0x0A, 0x0B, 0x10):
        radio.a[reg] = bytearray(rng.getrandbits(8) for _ in range(5))
    if not radio.plus:
        radio.features_active = rng.random() < 0.5
        if rng.random() < 0.3:
            radio.r[0x1D] = 0   # the state in which the ACTIVATE toggle test alone cannot tell the variants apart (D17)
    radio.flags = rng.choice([0, 0x10, 0x20, 0x40, 0x70])
    for _ in range(rng.randint(0, 3)):
        radio.rx_fifo.append((rng.randrange(6), bytes(rng.getrandbits(8) for _ in range(rng.randint(1, 32)))))
    radio.air.addr_changed(radio)


def _arg(a):
    if isinstance(a, dict) and "hex" in a:
        return bytes.fromhex(a["hex"])
    return a


SETTERS = {"channel", "data_rate", "pa_level", "crc", "address_length", "arc", "ard", "auto_ack", "dynamic_payloads",
           "payload_length", "ack", "allow_ask_no_ack", "power", "listen"}
GETTERS = SETTERS | {"is_lna_enabled", "is_plus_variant"}


def call(drv, op):
    n = op[0]
    a = [_arg(x) for x in op[1:]]
    if n.startswith("set_") and n[4:] in SETTERS:
        setattr(drv, n[4:], a[0])
        return None
    if n.startswith("get_") and n[4:] in GETTERS:
        return getattr(drv, n[4:])
    if n == "set_auto_retries":
        return drv.set_auto_retries(a[0], a[1])
    if n == "get_auto_retries":
        return tuple(drv.get_auto_retries())
    if n == "set_auto_ack_pipe":
        return drv.set_auto_ack(a[0], a[1])
    if n == "get_auto_ack_pipe":
        return drv.get_auto_ack(a[0])
    if n == "set_dynamic_payloads_pipe":
        return drv.set_dynamic_payloads(a[0], a[1])
    if n == "get_dynamic_payloads_pipe":
        return drv.get_dynamic_payloads(a[0])
    if n == "set_payload_length_pipe":
        return drv.set_payload_length(a[0], a[1])
    if n == "get_payload_length_pipe":
        return drv.get_payload_length(a[0])
    if n == "interrupt_config":
        return drv.interrupt_config(a[0], a[1], a[2])
    if n == "open_rx_pipe":
        return drv.open_rx_pipe(a[0], a[1])
    if n == "close_rx_pipe":
        return drv.close_rx_pipe(a[0])
    if n == "open_tx_pipe":
        return drv.open_tx_pipe(a[0])
    if n == "get_address":
        r = drv.address(a[0])
        return bytes(r)
    if n == "start_carrier_wave":
        return drv.start_carrier_wave()
    if n == "stop_carrier_wave":
        return drv.stop_carrier_wave()
    if n == "print_details":
        with contextlib.redirect_stdout(io.StringIO()):
            return drv.print_details(a[0])
    raise KeyError(n)


def _diff(chip_snap, ref_snap):
    out = []
    for reg in CFG_REGS:
        if chip_snap[reg] != ref_snap[reg]:
            out.append("reg 0x%02X radio=%s expected=%s" % (reg, chip_snap[reg].hex(), ref_snap[reg].hex()))
    return out


def run(scn):
    res = Result()
    w = World(scn["seed"], max_events=200_000, max_time=60_000 * MS)
    try:
        _run(scn, w, res)
    except SimAbort:
        pass
    finally:
        res.absorb_world(w)
        w.close()
    return res


def _run(scn, w, res):
    sim = w.sim
    radio = w.radio("U", plus=scn["plus"])
    if scn["dirty"]:
        dirty_chip(radio, stream(scn["seed"], "dirty"))
    drv = RF24(*w.bus(radio, backend=scn["backend"]))
    ref = Ref(radio)
    d0 = _diff(radio.config_snapshot(), ref.snapshot())
    if d0:
        res.add("encoding", {"kind": "after_init", "reg": d0[0][:8]}, "after instantiation: " + "; ".join(d0))
        return
    radio.lint.clear()
    names = []
    changed = False
    for op in scn["ops"]:
        n = op[0]
        if n in ("start_carrier_wave", "stop_carrier_wave") and not drv.is_plus_variant:
            continue
        names.append(n)
        outs = ref.apply([op[0]] + [_arg(x) for x in op[1:]])
        before = radio.config_snapshot()
        lint0 = len(radio.lint)
        exc = None
        ret = None
        try:
            ret = call(drv, op)
        except SimAbort:
            raise
        except (ValueError, IndexError) as e:
            exc = e
        except Exception as e:
            res.add("raises", {"kind": "undocumented_exception", "op": n, "exc": type(e).__name__},
                    "%r raised %r" % (op, e))
            return
        after = radio.config_snapshot()
        # ---- lint
        for (_, reg, val, what) in radio.lint[lint0:]:
            if reg == 3 and n == "set_address_length":
                continue
            res.add("lint", {"kind": "illegal_register_value", "op": n, "reg": reg},
                    "%r wrote 0x%02X to register 0x%02X: %s" % (op, val, reg, what))
        # ---- match one of the documented outcomes
        ename = type(exc).__name__ if exc is not None else None
        matched = None
        why = []
        for (oexc, oret, ostate) in outs:
            if oexc != ename:
                why.append("exception %s vs documented %s" % (ename, oexc))
                continue
            d = _diff(after, ostate.snapshot())
            if d:
                why.append("; ".join(d))
                continue
            matched = (oexc, oret, ostate)
            break
        if matched is None:
            exc_mismatch = all(o[0] != ename for o in outs)
            if exc_mismatch:
                res.add("raises", {"kind": "exception_mismatch", "op": n, "got": ename, "want": outs[0][0]},
                        "%r: got %s, documented %s (history %r)" % (op, ename, [o[0] for o in outs], names[-4:]))
            else:
                regs = sorted({x.split()[1] for x in why[-1].split("; ")}) if why else []
                res.add("encoding", {"kind": "register_mismatch", "op": n, "regs": ",".join(regs)},
                        "%r: %s (history %r)" % (op, why[-1] if why else "", names[-4:]))
            return
        oexc, oret, ostate = matched
        if oexc is None and n.startswith("get_") and oret is not ANY:
            got = ret
            if isinstance(got, (bytearray, bytes)):
                got = bytes(got)
            if got != oret or (isinstance(oret, bool) != isinstance(got, bool)):
                res.add("getters", {"kind": "getter_value", "op": n}, "%r returned %r, value in effect %r (history %r)" % (op, ret, oret, names[-4:]))
                return
        if after != before:
            changed = True
        ref = ostate
    # ---- cache: dumping the cached view must not change the radio
    before = radio.config_snapshot()
    drv.__enter__()
    after = radio.config_snapshot()
    diffs = []
    for reg in CFG_REGS:
        b, a = before[reg], after[reg]
        if reg == 0:
            b, a = bytes([b[0] & 0x7D]), bytes([a[0] & 0x7D])
        if a != b:
            diffs.append("reg 0x%02X radio=%s cache=%s" % (reg, before[reg].hex(), after[reg].hex()))
    if diffs:
        res.add("cache", {"kind": "cache_differs", "regs": ",".join(d.split()[1] for d in diffs)},
                "entering the `with` block rewrote: %s (history %r)" % ("; ".join(diffs), names[-6:]))
    # ---- ... and after somebody else used the radio in between (its registers re-programmed by another object), entering the
    # block again puts every configuration register back to what this object holds
    if not res.violations and scn["seed"] % 3 == 0:
        established = radio.config_snapshot()
        drv.__exit__(None, None, None)
        dirty_chip(radio, stream(scn["seed"], "foreign"))
        radio.rx_fifo.clear()
        if not radio.plus:
            radio.features_active = True
        drv.__enter__()
        now = radio.config_snapshot()
        diffs = []
        for reg in CFG_REGS:
            b_, a_ = established[reg], now[reg]
            if reg == 0:
                b_, a_ = bytes([b_[0] & 0x7D]), bytes([a_[0] & 0x7D])
            if a_ != b_:
                diffs.append("reg 0x%02X radio=%s established=%s" % (reg, now[reg].hex(), established[reg].hex()))
        if diffs:
            res.add("cache", {"kind": "not_restored_after_foreign_use", "regs": ",".join(d.split()[1] for d in diffs)},
                    "re-entering the `with` block after another object had re-programmed the radio left: %s (history %r)" % ("; ".join(diffs), names[-6:]))
    # ---- non-plus chips: the carrier test overwrites configuration (documented); the documented way back is `with nrf: pass`
    if not res.violations and not drv.is_plus_variant and scn["seed"] % 3 != 0 and not radio.r[6] & 0x90:     # (no carrier running already)
        drv.__enter__()
        established = radio.config_snapshot()
        try:
            drv.start_carrier_wave()
            sim.advance(2_000_000)
            drv.stop_carrier_wave()
            drv.__enter__()
        except SimAbort:
            raise
        except Exception as e:    # noqa: BLE001
            res.add("raises", {"kind": "carrier_test_raised", "exc": type(e).__name__}, "carrier test + `with` restore raised %r (history %r)" % (e, names[-6:]))
        else:
            sim.count("nonplus_carrier_test_restored")
            now = radio.config_snapshot()
            diffs = []
            for reg in CFG_REGS:
                b_, a_ = established[reg], now[reg]
                if reg == 0:
                    b_, a_ = bytes([b_[0] & 0x7C]), bytes([a_[0] & 0x7C])     # (power and role are the carrier test's business)
                if reg == 2:
                    b_, a_ = bytes([b_[0] & 0x3E]), bytes([a_[0] & 0x3E])     # (in TX mode pipe 0 is open for acknowledgements)
                if a_ != b_:
                    diffs.append("reg 0x%02X radio=%s established=%s" % (reg, now[reg].hex(), established[reg].hex()))
            if diffs:
                res.add("cache", {"kind": "not_restored_after_carrier_test", "regs": ",".join(d.split()[1] for d in diffs)},
                        "non-plus chip: start_carrier_wave(), stop_carrier_wave() and the documented `with nrf: pass` left: %s (history %r)" % ("; ".join(diffs), names[-6:]))
    res.nontrivial = changed
    import hashlib
    res.isig = hashlib.blake2b(repr((names, scn["plus"], scn["dirty"])).encode(), digest_size=8).hexdigest()
    res.sample = {"chip": "plus" if scn["plus"] else "non-plus", "dirty": scn["dirty"], "kind": scn["kind"], "ops": scn["ops"][:6]}
