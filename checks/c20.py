"""C20 - rf24_lite honours the same link-level contract as RF24.

The scenario generators, runners and clauses of C01, C02, C08 and C10 are re-used with the lite driver on the
busio-style back-end + real adafruit SPIDevice (extra_clocks=8), in the pairings lite->full, full->lite, lite<->lite,
within the lite driver's documented reductions (global dynamic payloads / payload length, auto-ack and 2-byte CRC always
on, payload lengths 1..32 in both modes, no per-pipe setters, no `with`).  Two parts are specific to this check:

  cfg       (the C03 part) every configuration attribute the lite driver shares with RF24 programs the documented
            register encoding, alters no foreign register, and reads back the value in effect
  load_ack  accepted (returns True, exactly one W_ACK_PAYLOAD carrying the buffer) <=> 1 <= len <= 32 and 0 <= pipe <= 5
            (and the TX FIFO is not full); otherwise False, no payload command on SPI, TX FIFO and FEATURE/DYNPD untouched

Clause names of the re-used parts are prefixed: c01.delivered, c02.truth, c08.rx_pipe0, c10.accessors, ...
"""
import hashlib

from nrfsim.core import SimAbort, stream, MS
from nrfsim.harness import Result
from nrfsim.mcu import World
from checks import c01, c02, c08, c10
from circuitpython_nrf24l01.rf24_lite import RF24 as RF24Lite

PROP = "C20"
LEVEL = "exploration"
RULE = ("index space split round-robin over 8 parts: C01 generator lite->full / full->lite / lite<->lite (payload lengths 1..32), C02 "
        "generator incl. its enumerated fate vectors with a lite transmitter (full or lite peer), C08 sweep over the lite alphabet "
        "(complete to depth 4 quick / depth 5 thorough), C10 histories on a lite UUT, seeded configuration histories against an inline reference "
        "encoder, and the load_ack grid (every length 0..34 x pipe -1..6 x FIFO fill 0..3 x cached status fresh/stale). Non-trivial and distinct as in the "
        "re-used checks")
ASSUMPTIONS = ["as C01, C02, C08, C10", "the lite driver always sits on an nRF24L01+ (documented: not compatible with non-plus variants)", "lite write() documents ValueError outside 1..32 bytes in both payload-length modes"]
CLAUSES = {"c01.*": "payload integrity as C01", "c02.*": "send()/resend() outcomes as C02", "c08.*": "pipe-0 restoration as C08",
           "c10.*": "accessors as C10", "cfg": "configuration attributes round-trip with the documented encoding",
           "load_ack": "accepts exactly buffers of 1..32 bytes for pipes 0..5 and otherwise leaves the TX FIFO untouched"}
SHRINK_KEYS = ("ops", "faults")
CHUNK = 100
NPARTS = 8
GRID = [(n, p, f, fresh) for n in list(range(0, 35)) for p in range(-1, 7) for f in range(4) for fresh in (1, 0)]


C08_EXTRA = 5400     # quick: completes the depth-4 level of the lite pipe-0 sweep (9 + 81 + 729 + 6561 sequences)


def count(tier):
    return 16000 + C08_EXTRA if tier == "quick" else 160000


def exhaustive(tier):
    return False


def make(i, base_seed, tier):
    part, j = i % NPARTS, i // NPARTS
    seed = base_seed * 1_000_003 + i
    if tier == "quick" and i >= 16000:
        part, j = 4, 2000 + (i - 16000)
    if part in (0, 1, 2):
        scn = c01.make(j + 5000 * part, base_seed, "quick")
        lt, lr = [(True, False), (False, True), (True, True)][part]
        for side, lite in (("tx", lt), ("rx", lr)):
            if lite:
                scn["cfg"][side] = {"cls": "lite", "backend": "busio", "plus": True}   # documented: lite is not compatible with non-plus chips
        scn["cfg"].update({"crc": 2, "auto_ack": True, "allow_ask_no_ack": True})
        rng = stream(seed, "clamp")
        ops = []
        for op in scn["ops"]:
            if op["op"] == "reconf":
                continue      # (rf24_lite has no crc attribute: its CRC length is fixed)
            if "bufs" in op:
                # lite (either end transmits after a `turn`): 1..32 bytes in both modes
                op["bufs"] = [b if 2 <= len(b) <= 64 else "%02x" % rng.getrandbits(8) * rng.randint(1, 32) for b in op["bufs"]]
            ops.append(op)
        scn["ops"] = ops
        scn["mode"] = "seq"
        return {"seed": seed, "part": "c01", "sub": scn, "ops": scn["ops"], "faults": scn["faults"]}
    if part == 3:
        scn = c02.make(j, base_seed, tier if j < 2000 else "quick", lite_tx=True, lite_rx=bool(j % 2))
        scn["cfg"]["tx"]["plus"] = True
        if scn["cfg"]["rx"]["cls"] == "lite":
            scn["cfg"]["rx"]["plus"] = True
        return {"seed": seed, "part": "c02", "sub": scn, "ops": scn["ops"], "faults": scn["faults"]}
    if part == 4:
        scn = c08.make(j, base_seed, "quick" if tier == "quick" else "thorough", lite=True)
        scn["plus"] = True
        return {"seed": seed, "part": "c08", "sub": scn, "ops": scn["ops"], "faults": []}
    if part == 5:
        scn = c10.make(j, base_seed, tier, lite=True)
        scn["plus"] = True
        return {"seed": seed, "part": "c10", "sub": scn, "ops": scn["ops"], "faults": []}
    rng = stream(seed, "work")
    if part == 6:
        ops = []
        for _ in range(rng.randint(2, 20)):
            k = rng.choice(["channel", "data_rate", "pa_level", "arc", "ard", "address_length", "dynamic_payloads", "payload_length", "ack",
                            "power", "listen", "interrupt_config", "open_rx_pipe", "close_rx_pipe", "open_tx_pipe", "write"])
            if k == "write":
                # not a configuration call, but one that touches CONFIG: rf24_lite wakes the radio / leaves RX mode by itself when it is
                # asked to transmit - only the power and role bits may change
                ops.append([k, rng.randint(1, 32)])
                continue
            if k == "channel":
                ops.append([k, rng.choice([0, 76, 125, 126, -1, rng.randint(0, 125)])])
            elif k == "data_rate":
                ops.append([k, rng.choice([1, 2, 250])])
            elif k == "pa_level":
                ops.append([k, rng.choice([-18, -12, -6, 0, 5])])
            elif k == "arc":
                ops.append([k, rng.choice([0, 15, 16, -1, rng.randint(0, 15)])])
            elif k == "ard":
                ops.append([k, rng.choice([250, 4000, 0, 5000, 1600, 250 * rng.randint(1, 16)])])
            elif k == "address_length":
                ops.append([k, rng.choice([3, 4, 5, 2, 6])])
            elif k in ("dynamic_payloads", "ack", "power", "listen"):
                ops.append([k, rng.random() < 0.5])
            elif k == "payload_length":
                ops.append([k, rng.choice([1, 32, 0, 33, rng.randint(1, 32)])])
            elif k == "interrupt_config":
                ops.append([k] + [rng.random() < 0.5 for _ in range(3)])
            elif k == "open_rx_pipe":
                ops.append([k, rng.choice([0, 1, 2, 5, 6, -1]), bytes(rng.getrandbits(8) for _ in range(rng.randint(1, 5))).hex()])
            elif k == "close_rx_pipe":
                ops.append([k, rng.choice([0, 1, 5, 6, -1])])
            else:
                ops.append([k, bytes(rng.getrandbits(8) for _ in range(rng.randint(1, 5))).hex()])
        return {"seed": seed, "part": "cfg", "ops": ops, "faults": [], "plus": True}
    n, p, f, fresh = GRID[j % len(GRID)]
    return {"seed": seed, "part": "load_ack", "ops": [[n, p, f, fresh]], "faults": [], "plus": True}


def run(scn):
    part = scn["part"]
    if part in ("c01", "c02", "c08", "c10"):
        mod = {"c01": c01, "c02": c02, "c08": c08, "c10": c10}[part]
        sub = dict(scn["sub"])
        sub["ops"] = scn["ops"]            # the minimiser edits the outer lists
        if "faults" in sub:
            sub["faults"] = scn["faults"]
        res = mod.run(sub)
        for v in res.violations:
            v.sig = dict(v.sig, part=part, clause=v.clause)
            v.clause = "%s.%s" % (part, v.clause)
        res.isig = hashlib.blake2b((part + res.isig).encode(), digest_size=8).hexdigest()
        if isinstance(res.sample, dict):
            res.sample = dict(res.sample, part=part)
        return res
    res = Result()
    w = World(scn["seed"], max_events=400_000, max_time=60_000 * MS)
    try:
        if part == "cfg":
            _cfg(scn, w, res)
        else:
            _load_ack(scn, w, res)
    except SimAbort:
        pass
    finally:
        res.absorb_world(w)
        w.close()
    return res


def _cfg(scn, w, res):
    radio = w.radio("U", plus=scn.get("plus", True))
    drv = RF24Lite(*w.bus(radio, backend="busio"))
    # documented state after instantiation of the lite driver
    ref = {0: 0x0E, 1: 0x3F, 2: 0, 3: 3, 4: 0x5F, 5: 76, 6: 7, 0x1C: 0x3F, 0x1D: 5}
    for p in range(6):
        ref[0x11 + p] = 32
    adr = {r: bytearray(radio.a[r]) for r in (0x0A, 0x0B, 0x10)}
    for r in (0x0C, 0x0D, 0x0E, 0x0F):
        ref[r] = radio.r[r]
    user0 = [None]

    def compare(where):
        for reg, val in ref.items():
            if radio.reg_value(reg) != val:
                res.add("cfg", {"kind": "register_mismatch", "op": where[0], "reg": reg}, "after %r register 0x%02X = 0x%02X, documented encoding 0x%02X" % (where, reg, radio.reg_value(reg), val))
                return False
        for reg, val in adr.items():
            if bytes(radio.a[reg]) != bytes(val):
                res.add("cfg", {"kind": "register_mismatch", "op": where[0], "reg": reg}, "after %r register 0x%02X = %s, expected %s" % (where, reg, bytes(radio.a[reg]).hex(), bytes(val).hex()))
                return False
        return True

    if not compare(["init"]):
        return
    changed = False
    for op in scn["ops"]:
        k = op[0]
        exc = None
        want_exc = None
        try:
            if k == "channel":
                if 0 <= op[1] <= 125:
                    ref[5] = op[1]
                else:
                    want_exc = "ValueError"
                drv.channel = op[1]
            elif k == "data_rate":
                ref[6] = (ref[6] & 0xD7) | {1: 0, 2: 8, 250: 0x20}[op[1]]
                drv.data_rate = op[1]
            elif k == "pa_level":
                if op[1] in (-18, -12, -6, 0):
                    ref[6] = (ref[6] & 0xF8) | {-18: 0, -12: 2, -6: 4, 0: 6}[op[1]] | 1
                else:
                    want_exc = "ValueError"
                drv.pa_level = op[1]
            elif k == "arc":
                ref[4] = (ref[4] & 0xF0) | max(0, min(op[1], 15))
                drv.arc = op[1]
            elif k == "ard":
                ref[4] = (ref[4] & 0x0F) | (((max(250, min(op[1], 4000)) - 250) // 250) << 4)
                drv.ard = op[1]
            elif k == "address_length":
                ref[3] = op[1] - 2 if 3 <= op[1] <= 5 else 0
                drv.address_length = op[1]
            elif k == "dynamic_payloads":
                ref[0x1D] = (ref[0x1D] & 3) | (bool(op[1]) << 2)
                ref[0x1C] = 0x3F if op[1] else 0
                drv.dynamic_payloads = op[1]
            elif k == "payload_length":
                for p in range(6):
                    ref[0x11 + p] = max(1, min(32, op[1]))
                drv.payload_length = op[1]
            elif k == "ack":
                if op[1]:
                    ref[0x1C] = 0x3F
                    ref[0x1D] |= 4
                ref[0x1D] = (ref[0x1D] & 5) | (2 if op[1] else 0)
                drv.ack = op[1]
            elif k == "power":
                ref[0] = (ref[0] & 0x7D) | (bool(op[1]) << 1)
                drv.power = op[1]
            elif k == "listen":
                ref[0] = (ref[0] & 0x7C) | 2 | bool(op[1])
                if op[1]:
                    if user0[0] is not None:
                        adr[0x0A][: len(user0[0])] = user0[0]
                    else:
                        ref[2] &= 0x3E
                else:
                    ref[2] |= 1
                drv.listen = op[1]
            elif k == "interrupt_config":
                ref[0] = (ref[0] & 0x0F) | ((not op[1]) << 6) | ((not op[2]) << 5) | ((not op[3]) << 4)
                drv.interrupt_config(op[1], op[2], op[3])
            elif k == "open_rx_pipe":
                pipe, addr = op[1], bytes.fromhex(op[2])
                if 0 <= pipe <= 5:
                    if pipe < 2:
                        adr[0x0A + pipe][: len(addr)] = addr
                        if pipe == 0:
                            user0[0] = addr
                    else:
                        ref[0x0A + pipe] = addr[0]
                    ref[2] |= 1 << pipe
                else:
                    want_exc = "ValueError"
                drv.open_rx_pipe(pipe, addr)
            elif k == "close_rx_pipe":
                pipe = op[1]
                if 0 <= pipe <= 5:
                    ref[2] &= ~(1 << pipe)
                    if pipe == 0:
                        user0[0] = None
                else:
                    want_exc = "ValueError"
                drv.close_rx_pipe(pipe)
            elif k == "write":
                if ref[0] & 3 != 2:
                    ref[0] = (ref[0] & 0x7C) | 2
                drv.write(bytes(op[1]), write_only=True)
                drv.flush_tx()
            elif k == "open_tx_pipe":
                addr = bytes.fromhex(op[1])
                adr[0x10][: len(addr)] = addr
                adr[0x0A][: len(addr)] = addr
                if not ref[0] & 1:
                    ref[2] |= 1     # pipe 0 must be open for ACKs while not in RX mode (C08)
                drv.open_tx_pipe(addr)
        except SimAbort:
            raise
        except (ValueError, IndexError) as e:
            exc = type(e).__name__
        if (exc is None) != (want_exc is None):
            res.add("cfg", {"kind": "exception_mismatch", "op": k}, "%r: raised %r, documented %r" % (op, exc, want_exc))
            return
        if not compare(op):
            return
        changed = True
        # getters agree
        got = {"channel": drv.channel, "arc": drv.arc, "ard": drv.ard, "address_length": drv.address_length, "payload_length": drv.payload_length,
               "dynamic_payloads": drv.dynamic_payloads, "power": drv.power, "listen": drv.listen, "pa_level": drv.pa_level, "data_rate": drv.data_rate}
        want = {"channel": ref[5], "arc": ref[4] & 15, "ard": (ref[4] >> 4) * 250 + 250, "address_length": ref[3] + 2, "payload_length": ref[0x11],
                "dynamic_payloads": bool(ref[0x1D] & 4), "power": bool(ref[0] & 2), "listen": (ref[0] & 3) == 3, "pa_level": (3 - ((ref[6] & 6) >> 1)) * -6,
                "data_rate": {0: 1, 8: 2, 0x20: 250}.get(ref[6] & 0x28, 250)}
        for name in got:
            if got[name] != want[name]:
                res.add("cfg", {"kind": "getter", "attr": name}, "%s reads %r, value in effect %r (after %r)" % (name, got[name], want[name], op))
                return
        if radio.lint:
            bad = [l for l in radio.lint if not (l[1] == 3 and k == "address_length")]
            if bad:
                res.add("cfg", {"kind": "illegal_register_value", "op": k, "reg": bad[0][1]}, "%r wrote 0x%02X to register 0x%02X: %s" % (op, bad[0][2], bad[0][1], bad[0][3]))
                return
            radio.lint.clear()
    res.nontrivial = changed
    res.isig = hashlib.blake2b(repr(scn["ops"]).encode(), digest_size=8).hexdigest()
    res.sample = {"part": "cfg", "ops": scn["ops"][:8]}


def _load_ack(scn, w, res):
    n, pipe, fill, fresh = (list(scn["ops"][0]) + [1])[:4] if scn["ops"] else (1, 0, 0, 1)
    radio = w.radio("U", plus=scn.get("plus", True))
    drv = RF24Lite(*w.bus(radio, backend="busio"))
    drv.open_rx_pipe(1, b"1Node")
    drv.listen = True
    for k in range(fill):
        drv.load_ack(bytes([k + 1]) * 3, 1)
    if fresh:
        drv.update()      # otherwise the driver's cached STATUS is the (pre-command, M1) byte of the last W_ACK_PAYLOAD
    radio.spi_log = []
    fifo0 = [dict(e) for e in radio.tx_fifo]
    feat0, dyn0 = radio.feat, radio.dynpd
    buf = bytes((7 * k + 1) & 0xFF for k in range(n))
    try:
        r = drv.load_ack(buf, pipe)
    except SimAbort:
        raise
    except Exception as e:
        res.add("load_ack", {"kind": "raised", "exc": type(e).__name__}, "load_ack(%d bytes, pipe %d) raised %r" % (n, pipe, e))
        return
    cmds = [o for (_, o) in radio.spi_log if o and 0xA8 <= o[0] <= 0xAF or o and o[0] in (0xA0, 0xB0)]
    ok_args = 1 <= n <= 32 and 0 <= pipe <= 5
    full = len(fifo0) >= 3
    sig = {"len_class": "0" if n == 0 else ("32" if n == 32 else ("1..31" if n < 32 else ">32")), "pipe_ok": 0 <= pipe <= 5, "full": full}
    if ok_args and not full:
        if r is not True or len(cmds) != 1 or cmds[0][0] != (0xA8 | pipe) or cmds[0][1:] != buf or len(radio.tx_fifo) != len(fifo0) + 1:
            res.add("load_ack", dict(sig, kind="valid_rejected"), "load_ack(%d bytes, pipe %d) with %d payloads queued returned %r, payload commands on SPI: %r"
                    % (n, pipe, len(fifo0), r, [c[:1].hex() for c in cmds]))
    elif not ok_args:
        if r is not False or cmds or [e["data"] for e in radio.tx_fifo] != [e["data"] for e in fifo0] or (radio.feat, radio.dynpd) != (feat0, dyn0):
            res.add("load_ack", dict(sig, kind="invalid_accepted"), "load_ack(%d bytes, pipe %d) returned %r, payload commands %r, TX FIFO %d -> %d, FEATURE 0x%02X->0x%02X DYNPD 0x%02X->0x%02X"
                    % (n, pipe, r, [c[:1].hex() for c in cmds], len(fifo0), len(radio.tx_fifo), feat0, radio.feat, dyn0, radio.dynpd))
    else:
        if r is not False or len(radio.tx_fifo) != 3:
            res.add("load_ack", dict(sig, kind="full_fifo"), "load_ack on a full TX FIFO returned %r (FIFO now %d)" % (r, len(radio.tx_fifo)))
    res.nontrivial = True
    res.isig = hashlib.blake2b(repr(("load_ack", n, pipe, fill, fresh)).encode(), digest_size=8).hexdigest()
    res.sample = {"part": "load_ack", "len": n, "pipe": pipe, "queued": fill, "returned": repr(r)}


def same_class(a, b):
    return (a.get("part"), a.get("clause"), a.get("kind"), a.get("len_class"), a.get("op")) == (b.get("part"), b.get("clause"), b.get("kind"), b.get("len_class"), b.get("op"))
