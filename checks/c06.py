"""C06 - reassembly never delivers a message that was not sent in full.

(a) injector level: one real node on its chip; scripted injector radios posing as 1-3 child senders put fragment
    frames (built by the independent reference fragmenter, TMRh20 numbering) on the node's pipes as ESB packets with
    fresh PIDs; the harness calls update() after every frame and lets the application dequeue at a chosen point.
    Delivery patterns are enumerated.
(b) full stack: 2-3 real sender nodes (tasks) write fragmented messages concurrently to one receiver over a medium with
    packet and ACK loss (seeded).

Clauses:
  intact        every frame the application dequeues equals (bytes, type, origin) one complete message that was sent to it
  at_most_once  each transmitted message is dequeued at most once
"""
import itertools

from nrfsim.core import SimAbort, stream, MS, US
from nrfsim.harness import Result
from nrfsim.mcu import World, Injector, random_mcu_knobs
from checks import netref
from checks.netcommon import Net, CLASSES
from checks.c05 import payload

PROP = "C06"
LEVEL = "fault_enumeration"
RULE = ("(a) enumerated delivery patterns through a real node's update(): messages of 2..4 fragments (thorough 2..6), every "
        "fragment {dropped, once, twice} (3^f), every single adjacent transposition, a full replay of the stream, all "
        "interleavings of two senders' streams (2-3 fragments each) with equal and with different frame ids, two consecutive "
        "messages of the same sender with every subset of fragments lost (different frame ids; and the same frame id whenever the second "
        "message's FIRST fragment arrives), messages of 5..7 fragments complete / one loss / one duplicate / one transposition, the stream (with repeated tail / full replay / "
        "drop-dup patterns) arriving at a queue that already holds 5 or 6 (= max_queue_size) whole messages of another sender, three senders "
        "round-robin, stray MORE/LAST with no FIRST (incl. ids equal to the node's freshly built cache), each with every "
        "dequeue position; node roles: network node at levels 0..2 and mesh master; (b) seeded full-stack runs: 2-3 child "
        "senders (in a third of the runs one of them a level further down, its fragments forwarded and answered with NETWORK_ACKs) writing fragmented messages (a quarter of them up to 168 bytes, a quarter re-using one frame id for two messages) "
        "concurrently with coinciding or different frame ids under packet/ACK loss. "
        "(c) a sender's two consecutive fragmented multicasts with library-assigned frame ids, 0..4096 headers created in between, the first losing its LAST and the second its FIRST fragment. "
        "(d) a fragmented multicast relayed to the next level by a node with multicast_relay on. "
        "Non-trivial: at least two fragment frames reached the node; distinct = distinct arrival sequences x dequeue position")
ASSUMPTIONS = ["reference fragmenter checks/netref.fragment (TMRh20 numbering)", "chip model M4 (fresh PID per injected frame)",
               "nothing is claimed about which messages get through"]
CLAUSES = {"intact": "byte-for-byte one complete message that some node actually sent to it, with its type and origin",
           "at_most_once": "one transmitted message is delivered at most once"}
PROBES = ["stream_met_full_queue", "pair_with_targeted_losses", "relayed_fragmented_multicast_delivered"]
SHRINK_KEYS = ("seq", "faults")
CHUNK = 100
_ENUM = {}


def _streams(nfr, senders=1, same_id=True, types=(33, 65, 2)):
    out = []
    for s in range(senders):
        out.append({"sender": s, "fid": 7 if same_id else 7 + 11 * s, "type": types[s % 3], "len": 24 * (nfr if isinstance(nfr, int) else nfr[s]) - 5 - s,
                    "seed": 100 + s})
    return out


def _enum(tier):
    if tier in _ENUM:
        return _ENUM[tier]
    cases = []
    maxf = 4 if tier == "quick" else 6
    for f, ty in [(f, ty) for f in range(2, maxf + 1) for ty in ((33, 65, 2), (1, 2, 0))]:
        # message types both above and below the fragment counter's range (the counter lives in the same header byte)
        st = _streams(f, types=ty)
        # every fragment dropped / once / twice
        for pat in itertools.product((0, 1, 2), repeat=f):
            seq = [[0, k] for k in range(f) for _ in range(pat[k])]
            if seq:
                cases.append((st, seq, "dropdup"))
        # adjacent transpositions
        for k in range(f - 1):
            seq = [[0, j] for j in range(f)]
            seq[k], seq[k + 1] = seq[k + 1], seq[k]
            cases.append((st, seq, "transpose"))
        # full replay, and replay of the tail
        cases.append((st, [[0, j] for j in range(f)] * 2, "replay"))
        cases.append((st, [[0, j] for j in range(f)] + [[0, f - 1]], "last_twice"))
        cases.append((st, [[0, j] for j in range(f)] + [[0, j] for j in range(1, f)], "tail_replay"))
    # interleavings of two senders
    for fa, fb in ((2, 2), (2, 3), (3, 3)) if tier == "quick" else ((2, 2), (2, 3), (3, 3), (3, 4), (4, 4)):
        for same in (True, False):
            st = _streams((fa, fb), 2, same)
            for pos in itertools.combinations(range(fa + fb), fa):
                seq, ia, ib = [], 0, 0
                for k in range(fa + fb):
                    if k in pos:
                        seq.append([0, ia])
                        ia += 1
                    else:
                        seq.append([1, ib])
                        ib += 1
                cases.append((st, seq, "interleave2"))
    # two consecutive messages of the SAME sender (different frame ids): every subset of fragments lost
    for fa, fb in ((2, 2), (2, 3), (3, 2), (3, 3)) if tier == "quick" else ((2, 2), (2, 3), (3, 2), (3, 3), (3, 4), (4, 3), (4, 4)):
        st = _streams((fa, fb), 2, False)
        st[1]["sender"] = 0
        full = [[0, j] for j in range(fa)] + [[1, j] for j in range(fb)]
        for mask in range(1, 1 << (fa + fb)):
            seq = [full[k] for k in range(fa + fb) if (mask >> k) & 1]
            if len(seq) >= 2:
                cases.append((st, seq, "two_msgs_same_sender"))
    # two consecutive messages of the same sender that carry the SAME frame id (re-used header object, id counter wrapped):
    # whenever the second message's FIRST fragment arrives, whatever was cached of the first one must be discarded
    # (patterns that lose that FIRST fragment are left out: their remaining fragments are indistinguishable on the wire)
    for fa, fb in ((2, 2), (3, 2), (3, 3)) if tier == "quick" else ((2, 2), (2, 3), (3, 2), (3, 3), (4, 3), (4, 4)):
        st = _streams((fa, fb), 2, True)
        st[1]["sender"] = 0
        full = [[0, j] for j in range(fa)] + [[1, j] for j in range(fb)]
        for mask in range(1, 1 << (fa + fb)):
            if not (mask >> fa) & 1:
                continue
            seq = [full[k] for k in range(fa + fb) if (mask >> k) & 1]
            if len(seq) >= 2:
                cases.append((st, seq, "two_msgs_same_sender_same_id"))
    # long messages (5..7 fragments; 7 = more than the default max_message_length of the sender): complete, every single
    # loss, every single duplicate, every adjacent transposition
    for f in (5, 6, 7):
        st = _streams(f, types=(65, 33, 2))
        full = [[0, j] for j in range(f)]
        cases.append((st, full, "long_complete"))
        for k in range(f):
            cases.append((st, full[:k] + full[k + 1:], "long_drop1"))
            cases.append((st, full[:k] + [full[k]] + full[k:], "long_dup1"))
        for k in range(f - 1):
            seq = list(full)
            seq[k], seq[k + 1] = seq[k + 1], seq[k]
            cases.append((st, seq, "long_transpose"))
    for same in (True, False):
        st = _streams((2, 3, 2), 3, same)
        seq = [[0, 0], [1, 0], [2, 0], [0, 1], [1, 1], [2, 1], [1, 2]]
        cases.append((st, seq, "interleave3"))
        cases.append((st, list(reversed(seq)), "interleave3_rev"))
    # strays with no FIRST
    for f in (2, 3, 4):
        st = _streams(f)
        for k in range(1, f):
            cases.append((st, [[0, j] for j in range(k, f)], "stray_tail"))
        cases.append((st, [[0, f - 1]], "stray_last"))
    cases.append(("cacheid", [[0, 1]], "stray_last_cache_id"))
    cases.append(("cacheid", [[0, 1], [0, 1]], "stray_last_cache_id_twice"))
    cases.append(("cacheid3", [[0, 1], [0, 2]], "stray_more_last_cache_id"))
    # a runt (a payload shorter than a header: foreign traffic that passed the radio's CRC) at every point of a complete stream
    for f in (2, 3, 4):
        st = _streams(f)
        full = [[0, j] for j in range(f)]
        for pos in range(f + 1):
            cases.append((st, full[:pos] + [[-1, 3 + pos]] + full[pos:], "runt"))
    # x dequeue position
    out = []
    for st, seq, kind in cases:
        for deq in (range(0, len(seq) + 1) if not kind.startswith("long_") else (0, len(seq) - 1)):
            out.append((st, seq, kind, deq, 0))
    # x a queue that is (nearly) full of other senders' whole messages when the stream arrives: a completed message may be
    # refused by the bounded queue; the application drains the queue at the dequeue position and the stream's tail comes again
    for f, ty in [(f, ty) for f in (2, 3) for ty in ((33, 65, 2), (1, 2, 0))]:
        st = _streams(f, types=ty)
        full = [[0, j] for j in range(f)]
        for seq, kind in ((full + [[0, f - 1]], "last_twice"), (full + full[1:], "tail_replay"), (full * 2, "replay"),
                          (full * 2 + [[0, f - 1]], "replay"), (full * 2 + full[1:], "replay")):
            for deq in range(0, len(seq) + 1):
                for pre in (5, 6):
                    out.append((st, seq, kind, deq, pre))
                if deq in (0, len(seq)):
                    # ... and a queue with room left: the other sender's messages are still ahead when the stream comes again
                    for pre in (1, 3):
                        out.append((st, seq, kind, deq, pre))
                if len(seq) > 2 * f and deq:
                    out.append((st, seq, kind, deq, 0))
        for pat in itertools.product((0, 1, 2), repeat=f):
            seq = [[0, k] for k in range(f) for _ in range(pat[k])]
            if len(seq) >= f:
                for deq in range(1, len(seq) + 1):
                    out.append((st, seq, "dropdup", deq, 6))
    _ENUM[tier] = out
    return out


NPAIR = 60
NRELAY = 30


def count(tier):
    return len(_enum(tier)) * 2 + (300 if tier == "quick" else 6000) + (NPAIR if tier == "quick" else 20 * NPAIR) + (NRELAY if tier == "quick" else 10 * NRELAY)


def exhaustive(tier):
    return False


ROLES = [("net", 0), ("net", 0o1), ("net", 0o12), ("master", 0)]


def make(i, base_seed, tier):
    seed = base_seed * 1_000_003 + i
    rng = stream(seed, "work")
    en = _enum(tier)
    if i < 2 * len(en):
        st, seq, kind, deq, pre = en[i % len(en)]
        role = ROLES[(i // len(en)) * 2 + (i % 2)] if i >= len(en) else ROLES[i % 2 * 3 % 4]
        return {"seed": seed, "layer": "a", "role": list(role), "streams": st, "seq": [list(x) for x in seq], "deq": deq, "prefill": pre,
                "kind": kind, "faults": []}
    kr = stream(seed, "knobs")
    if i >= 2 * len(en) + (300 if tier == "quick" else 6000) + (NPAIR if tier == "quick" else 20 * NPAIR):
        # ---- (d) a fragmented multicast relayed to the next level by a node with multicast_relay on: the relay's own application and the
        # listener one level further down get the complete message or nothing
        dr = stream(seed, "relay")
        return {"seed": seed, "layer": "d", "kind": "relayed_multicast", "relay": dr.choice([0o1, 0o2, 0o4]), "len": dr.randint(25, 120), "type": dr.randint(0, 127),
                "mseed": dr.getrandbits(20), "listener_digit": dr.randint(1, 5), "knobs": [random_mcu_knobs(kr, stalls=False) for _ in range(3)], "faults": []}
    if i >= 2 * len(en) + (300 if tier == "quick" else 6000):
        # ---- (c) a sender's two consecutive fragmented multicasts (unacknowledged, so the tail of a message goes out whatever
        # became of its head) with a seeded number of headers created in between, the first message losing its LAST fragment and
        # the second its FIRST: the listener must deliver neither - above all not the second's tail spliced onto the first's head.
        # (frame ids are the library's own: the sender's counter is seeded; 65 536 headers in between would legitimately repeat the id)
        pr = stream(seed, "pair")
        fa, fb = pr.randint(2, 4), pr.randint(2, 4)
        return {"seed": seed, "layer": "c", "kind": "mcast_pair", "between": pr.choice([0, 0, 1, 255, 256, 511, 4095, 4096]),
                "next_id": pr.choice([0, 1, 0xFF, 0xFFFE, 0xFFFF, pr.getrandbits(16)]), "sender": pr.choice([0o1, 0o3, 0o5]),
                "msgs": [{"len": 24 * fa - pr.randint(0, 20), "type": pr.randint(0, 127), "seed": pr.getrandbits(20), "nfr": fa},
                         {"len": 24 * fb - pr.randint(0, 20), "type": pr.randint(0, 127), "seed": pr.getrandbits(20), "nfr": fb}],
                "lose": pr.choice(["A_last+B_first", "A_last+B_first", "A_last", "B_first", "none"]),
                "knobs": random_mcu_knobs(kr, stalls=False), "recv_knobs": random_mcu_knobs(kr, stalls=False), "faults": []}
    # ---- (b) full stack
    recv = rng.choice([0, 0o1, 0o2])
    lv = netref.level(recv)
    kids = rng.sample(range(1, 6), rng.randint(2, 3))
    same = rng.random() < 0.5
    fid = rng.getrandbits(16)
    senders = []
    for d in kids:
        senders.append({"addr": recv | (d << (3 * lv)), "fid": fid if same else rng.getrandbits(16), "len": rng.randint(25, 144),
                        "type": rng.randint(0, 127), "seed": rng.getrandbits(20), "n": rng.randint(1, 2), "knobs": random_mcu_knobs(kr, stalls=False),
                        "delay_us": rng.randint(0, 3000)})
        x = stream(seed, "ext%d" % d)
        if x.random() < 0.25:     # sender configured for longer messages than the default (7 fragments)
            senders[-1]["maxlen"] = 168
            senders[-1]["len"] = x.randint(140, 168)
        if x.random() < 0.2:
            # the application keeps one header object for all its messages and the node is re-addressed (to a free sibling address)
            # between two of them: the second message's origin is the new address
            free_d = [q for q in range(1, 6) if q not in kids]
            if free_d:
                senders[-1]["same_header_obj"] = True
                senders[-1]["move_to"] = recv | (x.choice(free_d) << (3 * lv))
                senders[-1]["n"] = 2
                kids = kids + [senders[-1]["move_to"] >> (3 * lv) & 7]
        elif x.random() < 0.25:     # the sender's messages re-use one header (same frame id); direct children only send fragment k+1
            senders[-1]["reuse_id"] = True   # after fragment k was acknowledged, so a later message's FIRST always precedes its tail
            senders[-1]["n"] = 2
    zr = stream(seed, "routed")
    if lv < 2 and zr.random() < 0.3:
        # one sender sits a level further down: its fragments are forwarded by a sibling of the other senders, and every one of them is
        # answered with a NETWORK_ACK - which belongs in nobody's queue
        par = senders[0]["addr"]
        senders.append({"addr": par | (zr.randint(1, 5) << (3 * (lv + 1))), "fid": zr.getrandbits(16), "len": zr.randint(25, 100), "type": zr.randint(0, 127),
                        "seed": zr.getrandbits(20), "n": 1, "knobs": random_mcu_knobs(kr, stalls=False), "delay_us": zr.randint(0, 3000)})
    ar = stream(seed, "air")
    p = rng.choice([0.0, 0.05, 0.1, 0.2])
    return {"seed": seed, "layer": "b", "recv": recv, "recv_knobs": random_mcu_knobs(kr, stalls=False), "senders": senders,
            "faults": [{"n": n} for n in range(800) if ar.random() < p], "kind": "fullstack"}


def run(scn):
    res = Result()
    w = World(scn["seed"], plan=scn.get("faults"), max_events=3_000_000, max_time=60_000 * MS)
    try:
        if scn["layer"] == "a":
            _run_a(scn, w, res)
        elif scn["layer"] == "c":
            _run_c(scn, w, res)
        elif scn["layer"] == "d":
            _run_d(scn, w, res)
        else:
            _run_b(scn, w, res)
    except SimAbort:
        pass
    finally:
        res.absorb_world(w)
        w.close()
    return res


def _judge(res, delivered, sent, kind, twice_queued=()):
    """delivered: list of (origin, type, bytes); sent: list of (origin, type, bytes); twice_queued: messages of which two copies
    waited in the queue at the same time (the duplicate rule covers frames still queued)"""
    seen = {}
    for d in delivered:
        if d not in sent:
            near = [s for s in sent if s[0] == d[0]]
            res.add("intact", {"kind": "not_a_sent_message", "pattern": kind, "len_got": len(d[2])},
                    "application dequeued origin %o type %d %d bytes; messages sent to it: %r"
                    % (d[0], d[1], len(d[2]), [(oct(s[0]), s[1], len(s[2])) for s in sent]))
        else:
            seen[d] = seen.get(d, 0) + 1
    for d, n in seen.items():
        if n > sent.count(d):
            res.add("at_most_once", {"kind": "redelivered", "pattern": kind, "first_copy_still_queued": d in twice_queued},
                    "message from %o (%d bytes) dequeued %d times%s" % (d[0], len(d[2]), n, " (two copies waited in the queue together)" if d in twice_queued else ""))


def _run_a(scn, w, res):
    sim = w.sim
    cls, addr = scn["role"]
    rn = w.radio("N")
    node = CLASSES[cls](*w.bus(rn), addr)
    lv = netref.level(addr)
    inj = Injector(w, "INJ", channel=rn.r[5], rate=1, aw=5, crc=2, esb=True, dpl=True)
    streams = scn["streams"]
    if isinstance(streams, str):
        # stray fragments whose id equals the frame id held by the node's freshly constructed reassembly cache
        cache_id = node.queue._frags.header.frame_id if hasattr(node.queue, "_frags") else 0
        nfr = 3 if streams == "cacheid3" else 2
        streams = [{"sender": 0, "fid": cache_id, "type": 33, "len": 24 * nfr - 5, "seed": 5}]
    frames = []
    sent = []
    for s in streams:
        child = addr | ((s["sender"] + 1) << (3 * lv))
        data = payload(s["seed"], s["len"])
        frames.append((child, netref.fragment(child, addr, s["fid"], s["type"], data)))
        sent.append((child, s["type"], data))
    delivered = []

    def dequeue_all():
        while node.available():
            f = node.read()
            delivered.append((f.header.from_node, f.header.message_type, bytes(f.message)))

    twice = set()

    def look():
        held = [(f.header.from_node, f.header.message_type, bytes(f.message)) for f in getattr(node.queue, "_queue", [])]
        twice.update(h for h in held if held.count(h) > 1)

    n_in = 0
    # whole messages of another child already waiting in the bounded queue
    filler = addr | (5 << (3 * lv))
    for q in range(scn.get("prefill", 0)):
        data = payload(900 + q, 3 + q)
        inj.send(rn.pipe_addr(netref.child_pipe(filler)), netref.fragment(filler, addr, 0x5100 + q, 10, data)[0], want_ack=False)
        sent.append((filler, 10, data))
        sim.log("inject_filler", "N", q)
        node.update()
    if scn.get("prefill"):
        sim.count("queue_prefilled")
        if len(node.queue) >= node.queue.max_queue_size:
            sim.count("stream_met_full_queue")
    for k, (si, fi) in enumerate(scn["seq"]):
        if k == scn.get("deq", -1):
            dequeue_all()
        if si == -1:
            inj.send(rn.pipe_addr(netref.child_pipe(frames[0][0])), bytes([0xA5] * min(7, fi)), want_ack=False)
            sim.log("inject_runt", "N", fi)
            try:
                node.update()
            except SimAbort:
                raise
            except Exception as e:
                res.add("intact", {"kind": "update_raised", "exc": type(e).__name__}, "update() raised %r for a %d-byte payload" % (e, fi))
                return
            continue
        if si >= len(frames) or fi >= len(frames[si][1]):
            continue
        child, frs = frames[si]
        pipe = netref.child_pipe(child)
        inj.send(rn.pipe_addr(pipe), frs[fi], want_ack=False)
        n_in += 1
        sim.log("inject", "N", si, fi)
        try:
            node.update()
        except SimAbort:
            raise
        except Exception as e:
            res.add("intact", {"kind": "update_raised", "exc": type(e).__name__}, "update() raised %r" % (e,))
            return
        look()
    dequeue_all()
    _judge(res, delivered, sent, scn["kind"], twice)
    res.nontrivial = n_in >= 2
    import hashlib
    res.isig = hashlib.blake2b(repr((scn["role"], scn["seq"], scn.get("deq"), scn.get("prefill", 0), [(s["fid"], s["len"], s["type"]) for s in streams])).encode(), digest_size=8).hexdigest()
    res.sample = {"layer": "a", "role": [cls, oct(addr)], "kind": scn["kind"], "seq": scn["seq"], "deq": scn.get("deq"), "prefill": scn.get("prefill", 0),
                  "delivered": [(oct(d[0]), d[1], len(d[2])) for d in delivered]}


def _run_b(scn, w, res):
    sim = w.sim
    net = Net(w)
    recv = scn["recv"]
    chain = []
    a = recv
    while a:
        a = netref.parent(a)
        chain.append(a)
    for a in reversed(chain):
        net.add(a, "net", a)
    net.add(recv, "net", recv, knobs=scn["recv_knobs"])
    for s in scn["senders"]:
        net.add(s["addr"], "net", s["addr"], knobs=s["knobs"])
    net.start()
    sim.advance(3 * MS)
    sent = []
    cmds = []
    for s in scn["senders"]:
        msgs = [(s["type"], payload(s["seed"] + j, s["len"] - (j if s.get("reuse_id") and s["len"] > 25 else 0))) for j in range(s["n"])]
        for j_, (t, d) in enumerate(msgs):
            sent.append((s["move_to"] if (s.get("same_header_obj") and j_ >= 1) else s["addr"], t, d))

        def do(node, s=s, msgs=msgs):
            from circuitpython_nrf24l01.network.structs import RF24NetworkHeader, RF24NetworkFrame
            import circuitpython_nrf24l01.network.mixins as mix
            mix.time.sleep(s["delay_us"] / 1e6)
            out = []
            if s.get("maxlen"):
                node.max_message_length = s["maxlen"]
            keep_h = None
            for j, (t, d) in enumerate(msgs):
                if s.get("same_header_obj"):
                    if keep_h is None:
                        keep_h = RF24NetworkHeader(recv, t)
                    else:
                        node.node_address = s["move_to"]
                        keep_h.frame_id = (keep_h.frame_id + 1) & 0xFFFF
                    out.append(node.write(RF24NetworkFrame(keep_h, d)))
                    continue
                h = RF24NetworkHeader(recv, t)
                h.frame_id = (s["fid"] + (0 if s.get("reuse_id") else j)) & 0xFFFF
                out.append(node.write(RF24NetworkFrame(h, d)))
            return out
        cmds.append(net.post(s["addr"], "write", do))
    for c in cmds:
        net.wait(c, timeout=10_000 * MS)
    net.wait_quiet(quiet=10 * MS, timeout=3000 * MS)
    net.shutdown()
    delivered = [(e[1], e[3], e[4]) for e in net.nodes[recv].log]
    _judge(res, delivered, sent, "fullstack")
    for k, nc in net.nodes.items():
        if k != recv and nc.log:
            res.add("intact", {"kind": "foreign_queue"}, "node %o dequeued %d frames addressed to %o" % (k, len(nc.log), recv))
    res.nontrivial = len(w.air.trace) > 4
    res.sample = {"layer": "b", "recv": oct(recv), "senders": [(oct(s["addr"]), s["fid"], s["len"], s["n"]) for s in scn["senders"]],
                  "faults": len(scn["faults"]), "delivered": len(delivered)}


def _run_c(scn, w, res):
    sim = w.sim
    net = Net(w)
    snd = scn["sender"]
    net.add(0, "net", 0, knobs=scn["recv_knobs"])
    nc = net.add(snd, "net", snd, knobs=scn["knobs"])
    nc.mcu.next_id = scn["next_id"]
    net.nodes[0].no_read = True        # the listener's application reads at the end
    msgs = [(m["type"], payload(m["seed"], m["len"])) for m in scn["msgs"]]
    fa = scn["msgs"][0]["nfr"]
    lose = scn["lose"]
    rules = []
    if "A_last" in lose:
        rules.append({"src": "n%s" % snd, "ack": False, "nth": fa - 1})
    if "B_first" in lose:
        rules.append({"src": "n%s" % snd, "ack": False, "nth": fa})
    w.air.plan.rules.extend(rules)
    net.start()
    sim.advance(3 * MS)

    def do(node):
        from circuitpython_nrf24l01.network.structs import RF24NetworkHeader
        out = [node.multicast(msgs[0][1], msgs[0][0], 0)]
        for _ in range(scn["between"]):
            RF24NetworkHeader(0o2, 1)          # headers of other traffic the application prepared meanwhile
        out.append(node.multicast(msgs[1][1], msgs[1][0], 0))
        return out
    c = net.call(snd, "multicast_pair", do, timeout=10_000 * MS)
    net.wait_quiet(quiet=10 * MS, timeout=3000 * MS)
    net.nodes[0].no_read = False
    net.call(0, "read_all", lambda node: None, timeout=1000 * MS)
    net.shutdown()
    if not c.done or c.exc is not None:
        res.add("intact", {"kind": "multicast_raised_or_hung", "exc": type(c.exc).__name__}, "multicast() %r" % (c.exc,))
        return
    sent = [(snd, t, d) for (t, d) in msgs]
    delivered = [(e[1], e[3], e[4]) for e in net.nodes[0].log]
    _judge(res, delivered, sent, "mcast_pair")
    for k, nd in net.nodes.items():
        if k != 0 and nd.log:
            res.add("intact", {"kind": "foreign_queue"}, "node %o dequeued %d frames" % (k, len(nd.log)))
    if rules:
        sim.count("pair_with_targeted_losses")
    res.nontrivial = len(w.air.trace) >= 4
    res.sample = {"layer": "c", "between": scn["between"], "next_id": scn["next_id"], "lose": lose, "delivered": [(oct(d[0]), d[1], len(d[2])) for d in delivered]}


def _run_d(scn, w, res):
    sim = w.sim
    net = Net(w)
    relay = scn["relay"]
    lis = relay | (scn["listener_digit"] << 3)
    net.add(0, "net", 0, knobs=scn["knobs"][0])
    net.add(relay, "net", relay, knobs=scn["knobs"][1], setup=lambda node: setattr(node, "multicast_relay", True))
    net.add(lis, "net", lis, knobs=scn["knobs"][2])
    net.start()
    sim.advance(3 * MS)
    data = payload(scn["mseed"], scn["len"])
    c = net.call(0, "multicast", lambda node: node.multicast(data, scn["type"], 1), timeout=10_000 * MS)
    net.wait_quiet(quiet=15 * MS, timeout=3000 * MS)
    net.shutdown()
    if not c.done or c.exc is not None:
        res.add("intact", {"kind": "multicast_raised_or_hung", "exc": type(c.exc).__name__}, "multicast() %r" % (c.exc,))
        return
    sent = [(0, scn["type"], data)]
    for k in (relay, lis):
        _judge(res, [(e[1], e[3], e[4]) for e in net.nodes[k].log], sent, "relayed_multicast")
    if net.nodes[lis].log:
        sim.count("relayed_fragmented_multicast_delivered")
    res.nontrivial = len(w.air.trace) >= 4
    res.sample = {"layer": "d", "relay": oct(relay), "len": scn["len"], "listener_got": [(oct(e[1]), e[3], len(e[4])) for e in net.nodes[lis].log]}


def same_class(a, b):
    return a.get("kind") == b.get("kind") and a.get("pattern") == b.get("pattern")
