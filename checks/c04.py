"""C04 - tree routing connects all 781 addresses; pipe addresses never collide.

All 781 valid logical addresses are instantiated as real RF24Network objects, each on its own chip model on one
simulated air (construction programs the pipes through SPI).  A frame is then walked hop by hop: the harness calls
write() on the source, the air delivers the packet to whichever radios listen on that physical address, the harness
calls update() on the receiving node, which forwards, and so on.  Only one MCU runs at a time (sequential stepping);
bystanders are chips that would acknowledge and store if a packet matched one of their pipes.

No schedule or fault is quantified in this property; the simulator contributes the shared medium on which *agreement
between independently computed addresses of two nodes* becomes observable (DESIGN.md section 6).

Clauses:
  pipes  over all 781 x 6 (node, pipe) pairs read from the chips: pipes 1..5 of a node differ only in byte 0; no two
         distinct (node, pipe >= 1) share an address; pipe 0 is shared by exactly the nodes of one level (or is unique
         per node with multicast off)
  hop    every transmission is stored by exactly one radio, on a pipe >= 1, and that radio is the reference next hop
         (the sender's parent or direct child on the unique tree path)
  path   the frame reaches the destination's queue in at most 8 hops
  mcast  multicast(level=L) is transmitted to an address on which exactly the level-L nodes listen (pipe 0)
"""
import hashlib
from struct import error as struct_error

from nrfsim.core import SimAbort, stream, MS
from nrfsim.harness import Result
from nrfsim.mcu import World
from checks import netref
from circuitpython_nrf24l01.rf24_network import RF24Network
from circuitpython_nrf24l01.network.structs import RF24NetworkHeader, RF24NetworkFrame

PROP = "C04"
LEVEL = "exploration"
RULE = ("the (source, destination) pair space is enumerated: thorough walks all 781 x 780 ordered pairs for the default "
        "configuration (one scenario per source) plus 20 000 seeded pairs for each of 3 random distinct prefix/suffix sets and "
        "for allow_multicast off; quick checks the `pipes` clause exhaustively for 3 configurations and walks about 19 000 seeded "
        "pairs biased to deep/deep and cross-branch routes, about 1 900 of them again with an acknowledged message type (the frame down the path, the last "
        "router's NETWORK_ACK back along it); multicasts from sampled senders to every level (explicit and default) and from the master to level 0 / node 0o1 to level 1; 15 % of the nodes "
        "constructed with another address and re-addressed, a tenth of the walks preceded by a completely failed write of a node of the route (neighbour off the "
        "air), a tenth of the nodes with a run-time multicast_level override, fragmented writes whose origin passes a third node's frame on between two fragments; at no instant may a node re-address pipe 0 while its receiver is active. Non-trivial: "
        "route of >= 2 hops; distinct = distinct (configuration, source, destination)")
ASSUMPTIONS = ["loss-free medium, one MCU at a time (no schedule/fault dimension in this property)", "chip model M8 (address/pipe matching)"]
CLAUSES = {"pipes": "pipe addresses never collide; pipes 1-5 differ only in their first byte; pipe 0 shared per level",
           "hop": "each hop transmits to an address only the intended next hop listens on", "path": "unique tree path, at most 8 hops",
           "mcast": "a multicast is transmitted to exactly the level's shared address"}
SHRINK_KEYS = ("pairs",)
CHUNK = 1
ADDRS = netref.all_addresses()
NCFG = 5  # 0 default, 1..3 random prefix/suffix, 4 multicast off


def count(tier):
    if tier == "quick":
        return 3 + 48
    return NCFG + len(ADDRS) + 4 * 200


def exhaustive(tier):
    return tier == "thorough"


def _cfg(k, seed):
    if k == 0:
        return {"prefix": 0xCC, "suffix": [0xC3, 0x3C, 0x33, 0xCE, 0x3E, 0xE3], "multicast": True}
    if k == 4:
        return {"prefix": 0xCC, "suffix": [0xC3, 0x3C, 0x33, 0xCE, 0x3E, 0xE3], "multicast": False}
    r = stream(seed * 7 + k, "cfg")
    b = r.sample(range(1, 255), 7)
    return {"prefix": b[0], "suffix": b[1:], "multicast": True}


def _biased_pairs(rng, n):
    deep = [a for a in ADDRS if netref.level(a) >= 3]
    out = []
    for _ in range(n):
        k = rng.random()
        if k < 0.5:
            s, d = rng.choice(deep), rng.choice(deep)
        elif k < 0.8:
            s, d = rng.choice(ADDRS), rng.choice(ADDRS)
        else:
            s = rng.choice(deep)
            d = rng.choice([netref.parent(s), netref.parent(netref.parent(s)), 0, s ^ 1 if (s ^ 1) in ADDRS else 0])
        if s != d and d in ADDRS:
            out.append([s, d])
    return out


def make(i, base_seed, tier):
    seed = base_seed * 1_000_003 + i
    rng = stream(seed, "work")
    if tier == "quick":
        if i < 3:
            return {"seed": seed, "cfg": _cfg([0, 1 + base_seed % 3, 4][i], base_seed), "pipes": True, "pairs": [], "mcast": 6}
        return {"seed": seed, "cfg": _cfg([0, 0, 1, 2, 3, 4][i % 6], base_seed), "pipes": False, "pairs": _biased_pairs(rng, 400), "mcast": 4,
                "ack_pairs": _biased_pairs(stream(seed, "ack"), 40)}
    if i < NCFG:
        return {"seed": seed, "cfg": _cfg(i, base_seed), "pipes": True, "pairs": [], "mcast": 25}
    j = i - NCFG
    if j < len(ADDRS):
        s = ADDRS[j]
        return {"seed": seed, "cfg": _cfg(0, base_seed), "pipes": False, "pairs": [[s, d] for d in ADDRS if d != s], "mcast": 1, "all_from": s}
    k = 1 + (j - len(ADDRS)) // 200
    return {"seed": seed, "cfg": _cfg(k, base_seed), "pipes": False, "pairs": _biased_pairs(rng, 100), "mcast": 2,
            "ack_pairs": _biased_pairs(stream(seed, "ack"), 60)}


def run(scn):
    res = Result()
    w = World(scn["seed"], max_events=50_000_000, max_time=10**15, main_knobs={"spi_overhead_us": 5, "spi_jitter_us": 0})
    try:
        _run(scn, w, res)
    except SimAbort:
        pass
    except (IndexError, ValueError, TypeError, KeyError, AttributeError, struct_error) as e:
        import traceback
        tb = traceback.format_exc()
        if "circuitpython_nrf24l01" not in tb.strip().splitlines()[-3]:
            raise           # not raised inside the library: a harness error
        res.add("path", {"kind": "library_call_raised", "exc": type(e).__name__}, "a network call raised %r\n%s" % (e, tb[-800:]))
    finally:
        res.absorb_world(w)
        w.close()
    return res


def _run(scn, w, res):
    sim = w.sim
    cfg = scn["cfg"]
    nodes, radios = {}, {}
    mlevel = {}     # nodes whose multicast level was overridden at run time
    default = cfg["prefix"] == 0xCC and cfg["suffix"] == [0xC3, 0x3C, 0x33, 0xCE, 0x3E, 0xE3] and cfg["multicast"]
    crng = stream(scn["seed"], "construct")
    for a in ADDRS:
        r = w.radio("n%d" % a)
        if crng.random() < 0.15:
            # configuration history: constructed with another address (any level), re-addressed before use
            n = RF24Network(*w.bus(r), crng.choice(ADDRS))
            n.node_address = a
        else:
            n = RF24Network(*w.bus(r), a)
        if not default:
            n.address_prefix = bytearray([cfg["prefix"]])
            n.address_suffix = bytearray(cfg["suffix"])
            n.allow_multicast = cfg["multicast"]
            n.node_address = a
        nodes[a], radios[a] = n, r
    by_name = {"n%d" % a: a for a in ADDRS}
    if cfg["multicast"]:
        # run-time override of the multicast level on a tenth of the nodes (documented attribute): routing of unicast frames and the
        # node's own pipes 1-5 must not care; pipe 0 moves to the chosen level's shared address
        lrng = stream(scn["seed"], "mlevel")
        for a in ADDRS:
            if lrng.random() < 0.1:
                nodes[a].multicast_level = lrng.randint(0, 4)
                mlevel[a] = nodes[a].multicast_level
    # ---- pipes
    if scn.get("pipes"):
        owner = {}
        for a in ADDRS:
            r = radios[a]
            if r.r[2] != 0x3F:
                res.add("pipes", {"kind": "pipes_not_open"}, "node %o has EN_RXADDR=0x%02X" % (a, r.r[2]))
            uppers = {r.pipe_addr(p)[1:] for p in range(1, 6)}
            if len(uppers) != 1 or len({r.pipe_addr(p)[0] for p in range(1, 6)}) != 5:
                res.add("pipes", {"kind": "pipes_1_5_shape"}, "pipes 1-5 of node %o: %r" % (a, [r.pipe_addr(p).hex() for p in range(1, 6)]))
            for p in range(6):
                owner.setdefault(r.pipe_addr(p), []).append((a, p))
        for addr, who in owner.items():
            if len(who) == 1:
                continue
            if any(p != 0 for _, p in who):
                res.add("pipes", {"kind": "address_collision"}, "address %s is listened on by %r" % (addr.hex(), [(oct(a), p) for a, p in who][:6]))
                break
            lv = {mlevel.get(a, netref.level(a)) for a, _ in who}
            if len(lv) != 1 or not cfg["multicast"]:
                res.add("pipes", {"kind": "pipe0_sharing"}, "pipe-0 address %s is shared by nodes of levels %r" % (addr.hex(), sorted(lv)))
                break
        if cfg["multicast"]:
            for lv in range(1, 5):
                members = [a for a in ADDRS if mlevel.get(a, netref.level(a)) == lv]
                addrs0 = {radios[a].pipe_addr(0) for a in members}
                if len(addrs0) != 1:
                    res.add("pipes", {"kind": "level_not_shared"}, "level %d nodes listen on %d different pipe-0 addresses" % (lv, len(addrs0)))
        res.count("direct:pipe_pairs", 6 * len(ADDRS))
        res.nontrivial = True
    # ---- at no instant does a node listen on another node's address: pipe 0 is never re-addressed while the receiver is active
    rc_mark = {a: len(radios[a].rx_reconf) for a in ADDRS}

    def transient(a, sig, what):
        r = radios[a]
        new = r.rx_reconf[rc_mark[a]:]
        rc_mark[a] = len(r.rx_reconf)
        for (t_, kind, old, nw, active_ns, was_en) in new:
            if kind == "addr" and was_en:
                res.add("hop", dict(sig, kind="listened_on_foreign_address"),
                        "%s: node %o re-addressed pipe 0 from %s to %s while its receiver was active - until it left RX mode it listened on an address that belongs to another node"
                        % (what, a, bytes(old).hex(), bytes(nw).hex()))
                return True
        return False
    # ---- walks
    walked = 0
    frng = stream(scn["seed"], "fail_first")
    for (s, d) in scn["pairs"]:
        if res.violations:
            break
        ref = netref.path(s, d)
        if frng.random() < 0.1:
            # history: a node of the route - the source, an intermediate hop or the destination - transmitted before and failed completely
            # (that neighbour's radio was off the air); it must take part in the walk like any other node
            s_ = frng.choice(ref)
            nxt_ = ref[ref.index(s_) + 1] if s_ != ref[-1] else None
            nb = [x for x in ([netref.parent(s_)] if s_ else []) + [s_ | (k << (3 * netref.level(s_))) for k in range(1, 6) if netref.level(s_) < 4] if x != nxt_]
            if nb:
                f = frng.choice(nb)
                radios[f].set_ce(False)
                nodes[s_].write(RF24NetworkFrame(RF24NetworkHeader(f, 1), b"lost"))
                radios[f].set_ce(True)
                radios[f].rx_fifo.clear()
                res.count("walks_after_a_failed_write")
        w.air.trace.clear()
        frame = RF24NetworkFrame(RF24NetworkHeader(d, 1), bytes([s & 0xFF, d & 0xFF, 7]))
        nodes[s].write(frame)
        cur = s
        hops = 0
        sig = {"src_level": netref.level(s), "dst_level": netref.level(d)}
        while True:
            pk = [t for t in w.air.trace if not t["ack"] and by_name.get(t["src"]) == cur]
            w.air.trace.clear()
            if len(pk) != 1:
                res.add("hop", dict(sig, kind="transmissions"), "%o -> %o: node %o transmitted %d packets for one hop (write/forward on a loss-free medium)" % (s, d, cur, len(pk)))
                break
            stored = [by_name[n] for (n, oc) in pk[0]["rx"] if oc == "stored"]
            if len(stored) != 1:
                res.add("hop", dict(sig, kind="receivers"), "%o -> %o: packet from %o to %s was stored by %r" % (s, d, cur, pk[0]["addr"].hex(), [oct(x) for x in stored]))
                break
            nxt = stored[0]
            hops += 1
            want = ref[hops] if hops < len(ref) else None
            pipe = radios[nxt].rx_fifo[-1][0] if radios[nxt].rx_fifo else None
            if nxt != want:
                res.add("hop", dict(sig, kind="wrong_next_hop"), "%o -> %o: hop %d went from %o to %o, tree path is %r" % (s, d, hops, cur, nxt, [oct(x) for x in ref]))
                break
            if not pipe:
                res.add("hop", dict(sig, kind="pipe0"), "%o -> %o: hop %d arrived on pipe %r of %o" % (s, d, hops, pipe, nxt))
                break
            if transient(cur, sig, "%o -> %o" % (s, d)):
                break
            nodes[nxt].update()
            if nxt == d:
                f = nodes[d].read()
                if f is None or f.header.from_node != s or bytes(f.message) != bytes(frame.message if False else [s & 0xFF, d & 0xFF, 7]):
                    res.add("path", dict(sig, kind="not_queued"), "%o -> %o: frame reached the destination's radio but not its queue" % (s, d))
                break
            if hops >= 9:
                res.add("path", dict(sig, kind="too_many_hops"), "%o -> %o: more than 8 hops" % (s, d))
                break
            cur = nxt
        if hops > 8:
            res.add("path", dict(sig, kind="too_many_hops"), "%o -> %o took %d hops" % (s, d, hops))
        walked += 1
        if len(ref) > 2:
            res.nontrivial = True
    # ---- walks of acknowledged message types: the frame goes down the tree path, the last router's NETWORK_ACK comes back along it
    for (s, d) in scn.get("ack_pairs", []):
        if res.violations:
            break
        ref = netref.path(s, d)
        if len(ref) < 3:
            continue
        sig = {"src_level": netref.level(s), "dst_level": netref.level(d), "ack_type": True}
        w.air.trace.clear()
        nodes[s].write(RF24NetworkFrame(RF24NetworkHeader(d, 65), bytes([s & 0xFF, d & 0xFF, 9])))   # (returns after route_timeout: nobody else runs meanwhile)

        def one_hop(cur, pkt, toward, what):
            stored = [by_name[n] for (n, oc) in pkt["rx"] if oc == "stored"]
            want = netref.path(cur, toward)[1]
            if stored != [want]:
                res.add("hop", dict(sig, kind="receivers" if len(stored) != 1 else "wrong_next_hop", frame=what),
                        "%o -> %o (type 65): the %s transmitted by %o to %s was stored by %r, the tree path toward %o continues at %o"
                        % (s, d, what, cur, pkt["addr"].hex(), [oct(x) for x in stored], toward, want))
                return None
            if not (radios[want].rx_fifo and radios[want].rx_fifo[-1][0]):
                res.add("hop", dict(sig, kind="pipe0", frame=what), "%o -> %o (type 65): the %s arrived on pipe 0 of %o" % (s, d, what, want))
                return None
            return want
        cur, ack_from = s, None
        for _ in range(10):
            pk = [t for t in w.air.trace if not t["ack"] and by_name.get(t["src"]) == cur]
            w.air.trace.clear()
            last_router = cur != s and netref.path(cur, d)[1] == d
            if len(pk) != (2 if last_router else 1):
                res.add("hop", dict(sig, kind="transmissions"), "%o -> %o (type 65): node %o transmitted %d packets (%s)" % (s, d, cur, len(pk), "last router: frame + NETWORK_ACK" if last_router else "one forward"))
                break
            nxt = one_hop(cur, pk[0], d, "frame")
            if nxt is None:
                break
            if last_router:
                if len(pk[1]["data"]) < 8 or pk[1]["data"][6] != 193:
                    res.add("hop", dict(sig, kind="no_network_ack"), "%o -> %o (type 65): the last router %o sent type %r after the frame" % (s, d, cur, pk[1]["data"][6] if len(pk[1]["data"]) > 6 else None))
                    break
                ack_at = one_hop(cur, pk[1], s, "NETWORK_ACK")
                if ack_at is None:
                    break
                ack_from = cur
            nodes[nxt].update()
            if nxt == d:
                f = nodes[d].read()
                if f is None or f.header.from_node != s or f.header.message_type != 65:
                    res.add("path", dict(sig, kind="not_queued"), "%o -> %o (type 65): frame reached the destination's radio but not its queue" % (s, d))
                break
            cur = nxt
        if res.violations or ack_from is None:
            continue
        # the NETWORK_ACK on its way back to the origin
        cur = ack_at
        for _ in range(10):
            nodes[cur].update()
            if cur == s:
                break
            pk = [t for t in w.air.trace if not t["ack"] and by_name.get(t["src"]) == cur]
            w.air.trace.clear()
            if len(pk) != 1:
                res.add("hop", dict(sig, kind="transmissions", frame="NETWORK_ACK"), "%o -> %o (type 65): node %o transmitted %d packets when forwarding the NETWORK_ACK" % (s, d, cur, len(pk)))
                break
            cur = one_hop(cur, pk[0], s, "NETWORK_ACK")
            if cur is None:
                break
        w.air.trace.clear()
        res.count("ack_type_pairs_walked")
        res.nontrivial = True
    # ---- fragmented messages whose origin has to pass a third node's frame on while it waits between two fragments: every
    # fragment still goes to the next hop of the tree path (the frame to forward and the first fragment's NETWORK_ACK are waiting
    # in the origin's RX FIFO when write() begins; the nested update() of the wait handles them in that order)
    grng = stream(scn["seed"], "fragwalk")
    for (s, d) in (scn.get("ack_pairs") or [])[:12]:
        if res.violations:
            break
        ref = netref.path(s, d)
        lv_s = netref.level(s)
        if len(ref) < 3 or lv_s >= 4:
            continue
        kids = [s | (k << (3 * lv_s)) for k in range(1, 6)]
        src_c = grng.choice([c for c in kids if c != ref[1]])
        # the foreign frame leaves the origin in another direction than the message's own first hop
        if ref[1] in kids:
            goal = netref.parent(s) if s else grng.choice([c for c in kids if c not in (ref[1], src_c)])
        else:
            goal = grng.choice([c for c in kids if c != src_c])
        sig = {"src_level": lv_s, "dst_level": netref.level(d), "fragmented": True}
        for r_ in radios.values():
            pass
        radios[s].rx_fifo.clear()
        radios[s].inject_rx(netref.child_pipe(src_c), netref.pack_header(src_c, goal, 0x7001, 1, 0) + b"pass")
        radios[s].inject_rx(netref.child_pipe(ref[1]) if ref[1] in kids else 1, netref.pack_header(d, s, 0x7002, 193, 0))
        w.air.trace.clear()
        nodes[s].write(RF24NetworkFrame(RF24NetworkHeader(d, 2), bytes(range(40))))
        frs = [t for t in w.air.trace if by_name.get(t["src"]) == s and not t["ack"] and len(t["data"]) >= 8 and t["data"][6] in (148, 149, 150)]
        seen_ = []
        for t in frs:
            if t["data"] in seen_:
                continue
            seen_.append(t["data"])
            stored = [by_name[n] for (n, oc) in t["rx"] if oc == "stored"]
            if stored != [ref[1]]:
                res.add("hop", dict(sig, kind="wrong_next_hop", frame="fragment"),
                        "%o -> %o (40 bytes): fragment type %d went from %o to pipe address %s and was stored by %r - the tree path continues at %o (the origin passed a frame from %o on to %o between the fragments)"
                        % (s, d, t["data"][6], s, t["addr"].hex(), [oct(x) for x in stored], ref[1], src_c, goal))
                break
        if len(seen_) >= 2:
            res.count("fragments_after_forwarding_in_between")
        for t in w.air.trace:
            for (n, oc) in t["rx"]:
                if oc == "stored" and n in by_name:
                    radios[by_name[n]].rx_fifo.clear()
                    radios[by_name[n]].flags &= ~0x40      # (the harness empties the RX FIFO: only RX_DR goes with it - a latched MAX_RT is the driver's to see)
        radios[s].rx_fifo.clear()
        nodes[s].update()
        w.air.trace.clear()
    # ---- multicasts
    rng = stream(scn["seed"], "mc")
    if cfg["multicast"]:
        for k_ in range(scn.get("mcast", 0) + 2):
            if res.violations:
                break
            s = rng.choice(ADDRS)
            L = rng.randrange(5)
            arg = L
            if k_ < 2:
                s, L = [(0, 0), (0o1, 1)][k_]    # senders whose own address is the level's representative address
                arg = L
            elif rng.random() < 0.4:
                L, arg = mlevel.get(s, netref.level(s)), None   # default: the sender's own (or overridden) level
            w.air.trace.clear()
            try:
                nodes[s].multicast(b"mc", 2, arg)
            except SimAbort:
                raise
            except Exception as e:
                res.add("mcast", {"kind": "multicast_raised", "exc": type(e).__name__}, "multicast(level=%r) on node %o raised %r" % (arg, s, e))
                break
            pk = [t for t in w.air.trace if not t["ack"]]
            got = sorted(by_name[n] for t in pk for (n, oc) in t["rx"] if oc == "stored")
            want = sorted(a for a in ADDRS if mlevel.get(a, netref.level(a)) == L and a != s)
            if len(pk) != 1 or got != want:
                res.add("mcast", {"kind": "multicast_receivers", "level": L}, "multicast from %o to level %d: %d packets, stored by %d radios (levels %r), level has %d other nodes"
                        % (s, L, len(pk), len(got), sorted({netref.level(a) for a in got}), len(want)))
            for a in got:
                radios[a].rx_fifo.clear()
                radios[a].flags &= ~0x40
    res.count("pairs_walked", walked)
    res.isig = hashlib.blake2b(repr((cfg, scn.get("all_from"), scn["pairs"][:3], len(scn["pairs"]), scn.get("pipes"))).encode(), digest_size=8).hexdigest()
    res.sample = {"cfg": cfg, "pairs": [[oct(a), oct(b)] for a, b in scn["pairs"][:5]], "n_pairs": len(scn["pairs"]), "pipes_clause": bool(scn.get("pipes"))}
