"""C18 - every advertisement is a well-formed BLE packet for the channel it is sent on.

One chip, a FakeBLE object (optionally a second driver object - FakeBLE or RF24 - sharing the chip for the
`with` clause).  The sniffer takes each on-air payload with the RF_CH of that transmission and hands it to the
independent bit-serial codec checks/bleref.py.

Clauses:
  pdu       the de-whitened stream - for the BLE channel of the *tuned frequency* - is header 0x42, the right
            length byte, the configured MAC, the flags structure, the optional TX-power and name structures, the
            caller's chunks verbatim, then the correct CRC-24
  capacity  len_available() = 32 - bytes the packet already needs, exactly; advertise() raises ValueError
            <=> the packet would exceed 32 bytes, and then nothing is loaded or transmitted
"""
from nrfsim.core import SimAbort, stream, MS
from nrfsim.harness import Result
from nrfsim.mcu import World
from checks import bleref
from circuitpython_nrf24l01 import fake_ble
from circuitpython_nrf24l01.fake_ble import FakeBLE
from circuitpython_nrf24l01.rf24 import RF24

PROP = "C18"
LEVEL = "exploration"
RULE = ("seeded histories of `with` blocks (one or two objects on the chip) containing mac/name/show_pa_level/pa_level/"
        "hop_channel()/channel= assignments (valid and invalid) and advertise() calls with single buffers and chunk "
        "lists whose total sits around the capacity boundary (-2..+2), blocks left (also by an exception) and entered again in mid-history, the same list object of chunk() results advertised again, a sibling RF24 object "
        "that re-configures itself (C03 alphabet) and whose send() to an absent peer fails right before it hands the radio back; MCU personalities from 0 to 400 us per SPI transaction; thorough adds the complete grid name length "
        "0..20 x show_pa_level x PA level x chunk length. Every on-air payload is decoded by an independent spec-derived "
        "codec for the channel actually tuned. Non-trivial: at least one advertisement was transmitted; distinct = "
        "distinct (history of call names, name length, show_pa_level, chunk lengths)")
ASSUMPTIONS = ["the reference codec (checks/bleref.py) implements Core spec whitening/CRC-24/PDU layout",
               "legacy ShockBurst framing when EN_AA = 0 and ARC = 0 (the 32 payload bytes appear on the air verbatim)",
               "MAC arguments of at most 6 bytes"]
CLAUSES = {"pdu": "well-formed non-connectable advertising PDU for the tuned channel, CRC-24 correct",
           "capacity": "len_available() exact; ValueError exactly when the packet would not fit"}
SHRINK_KEYS = ("ops",)
CHUNK = 100
GRID = [(n, s, p, c) for n in range(-1, 21) for s in (0, 1) for p in (-18, -12, -6, 0) for c in range(0, 23)]


def count(tier):
    return 6000 if tier == "quick" else len(GRID) + 120000


def exhaustive(tier):
    return False


def _rand_adv(rng, free):
    """an advertise() argument whose total sits around the free capacity"""
    target = max(0, free + rng.choice([-2, -1, 0, 0, 1, 2, -5, rng.randint(-free, 3) if free > 0 else 1]))
    if rng.random() < 0.5:
        n = max(0, target - 2)
        return {"op": "advertise", "buf": bytes(rng.getrandbits(8) for _ in range(n)).hex(), "type": rng.choice([0xFF, 0x16, 0x09])}
    chunks = []
    left = target
    while left >= 2 and len(chunks) < 3:
        n = rng.randint(2, left) if rng.random() < 0.5 else left
        chunks.append((bytes([n - 1, rng.choice([0x16, 0xFF])]) + bytes(rng.getrandbits(8) for _ in range(n - 2))).hex())
        left -= n
    return {"op": "advertise", "chunks": chunks, "tuple": rng.random() < 0.5}


def make(i, base_seed, tier):
    seed = base_seed * 1_000_003 + i
    rng = stream(seed, "work")
    scn = {"seed": seed, "second": rng.choice([None, None, "RF24", "FakeBLE"]), "plus": rng.random() < 0.8,
           "backend": rng.choice(["spidev", "busio"])}
    if tier == "thorough" and i < len(GRID):
        n, s, p, c = GRID[i]
        ops = [{"op": "enter", "who": 0}, {"op": "pa_level", "v": p}]
        if n >= 0:
            ops.append({"op": "name", "v": bytes(65 + (k % 26) for k in range(n)).hex(), "kind": "bytes"})
        ops.append({"op": "show_pa_level", "v": bool(s)})
        ops.append({"op": "len_available", "hyp": ""})
        ops.append({"op": "advertise", "buf": bytes(rng.getrandbits(8) for _ in range(c)).hex(), "type": 0xFF})
        ops.append({"op": "exit", "who": 0})
        scn["ops"] = ops
        scn["second"] = None
        return scn
    ops = [{"op": "enter", "who": 0}]
    inside = 0
    free = 18
    for _ in range(rng.randint(3, 25)):
        k = rng.random()
        if k < 0.08 and scn["second"]:
            # another object takes the radio for a while
            ops.append({"op": "exit", "who": inside})
            other = 1 - inside
            ops.append({"op": "enter", "who": other})
            inside = other
        elif k < 0.16:
            v = rng.choice([None, rng.getrandbits(48), bytes(rng.getrandbits(8) for _ in range(rng.randint(0, 6))).hex()])
            ops.append({"op": "mac", "v": v})
        elif k < 0.30:
            n = rng.choice([0, 1, 3, 5, 10, 14, 15, 16, 17, 18, 19, 20])
            kind = rng.choice(["none", "str", "bytes", "bytes"])
            ops.append({"op": "name", "v": None if kind == "none" else bytes(97 + (j % 26) for j in range(n)).hex(), "kind": kind})
        elif k < 0.38:
            ops.append({"op": "show_pa_level", "v": rng.random() < 0.6})
        elif k < 0.44:
            ops.append({"op": "pa_level", "v": rng.choice([-18, -12, -6, 0])})
        elif k < 0.54:
            ops.append({"op": "hop_channel"})
        elif k < 0.64:
            ops.append({"op": "channel", "v": rng.choice([2, 26, 80, 2, 26, 80, 37, 0, 76, 125, 200])})
        elif k < 0.72:
            ops.append({"op": "len_available", "hyp": bytes(rng.getrandbits(8) for _ in range(rng.choice([0, 0, 1, 5, 18, 19]))).hex()})
        else:
            ops.append(_rand_adv(rng, rng.choice([18, 15, 13, 10, 5, 0, free])))
    ops.append({"op": "exit", "who": inside})
    xr = stream(seed, "ext")
    if xr.random() < 0.3:
        # the object's own block is left and entered again in mid-history - in half of the cases left by an exception (an application
        # error inside the block, a rejected advertise()): the documented reset of name / show_pa_level happens on every exit
        for _ in range(xr.randint(1, 2)):
            k_ = xr.randrange(1, len(ops))
            who = [o_["who"] for o_ in ops[:k_] if o_["op"] == "enter"][-1]
            ops[k_:k_] = [{"op": "exit", "who": who, "exc": xr.random() < 0.5}, {"op": "enter", "who": who}]
    # history: the application advertises the same list object of chunk() results again (repeatedly advertised sensor data)
    k_ = 0
    while k_ < len(ops):
        if ops[k_]["op"] == "advertise" and "chunks" in ops[k_] and len(ops[k_]["chunks"]) >= 2 and xr.random() < 0.6:
            ops[k_]["keep_list"] = True
            ops[k_]["tuple"] = False
            for _ in range(xr.randint(1, 2)):
                ops.insert(k_ + 1, {"op": "advertise", "chunks": ops[k_]["chunks"], "tuple": False, "reuse_list": True})
                k_ += 1
        k_ += 1
    if scn["second"] == "RF24":
        # the plain RF24 object sharing the radio sends to a peer that is not there (auto-ack on: all attempts unacknowledged)
        # right before it hands the radio back; inside its blocks it also re-configures itself (the C03 alphabet: payload lengths,
        # address width, CRC, retries, ...) - none of which may leak into the BLE object's packets
        from checks import c03 as _c03
        k_ = 0
        while k_ < len(ops):
            if ops[k_]["op"] == "exit" and ops[k_]["who"] == 1:
                extra = [{"op": "sibling_cfg", "call": _c03._rand_op(xr)} for _ in range(xr.randint(0, 4))]
                if xr.random() < 0.7:
                    extra.append({"op": "failed_send"})
                ops[k_:k_] = extra
                k_ += len(extra)
            k_ += 1
    # MCU personality: from a bare-metal MCU that polls the radio every microsecond to an interpreter that needs 400 us per transaction
    scn["spi_us"] = xr.choice([0, 0, 1, 30, 30, 150, 400])
    scn["ops"] = ops
    return scn


def run(scn):
    res = Result()
    w = World(scn["seed"], max_events=400_000, max_time=120_000 * MS, main_knobs={"spi_overhead_us": scn.get("spi_us", 30), "spi_jitter_us": 0})
    try:
        _run(scn, w, res)
    except SimAbort:
        pass
    finally:
        res.absorb_world(w)
        w.close()
    return res


def _run(scn, w, res):
    sim = w.sim
    radio = w.radio("B", plus=scn["plus"])
    bus = w.bus(radio, backend=scn["backend"])
    objs = [FakeBLE(*bus)]
    if scn["second"] == "RF24":
        objs.append(RF24(*bus))
    elif scn["second"] == "FakeBLE":
        objs.append(FakeBLE(*bus))
    # reference view of each BLE object's advertised identity (name/show reset on __exit__ as documented in code)
    st = [{"name": None, "show": False} for _ in objs]
    cur = None
    names = []
    radio.spi_log = []
    nadv = 0
    kept_list = None
    for op in scn["ops"]:
        o = op["op"]
        names.append(o)
        sim.log("call", "B", o)
        if o == "enter":
            if op["who"] >= len(objs) or cur is not None:
                continue
            cur = op["who"]
            objs[cur].__enter__()
            continue
        if o == "exit":
            if cur is None or op["who"] != cur:
                continue
            if op.get("exc"):
                err = ValueError("application error inside the with block")
                objs[cur].__exit__(ValueError, err, None)
                sim.count("block_left_by_exception")
            else:
                objs[cur].__exit__(None, None, None)
            st[cur] = {"name": None, "show": False}
            cur = None
            continue
        if cur is None:
            continue
        obj = objs[cur]
        ble = isinstance(obj, FakeBLE)
        if not ble:
            # the plain RF24 object only disturbs the shared radio
            try:
                if o == "channel":
                    obj.channel = op["v"]
                elif o == "pa_level":
                    obj.pa_level = op["v"]
                elif o == "hop_channel":
                    obj.channel = 90
                elif o == "sibling_cfg":
                    from checks import c03 as _c03
                    if op["call"][0] in ("start_carrier_wave", "stop_carrier_wave") and not obj.is_plus_variant:
                        continue
                    try:
                        _c03.call(obj, op["call"])
                    except (ValueError, IndexError, NotImplementedError):
                        pass
                    sim.count("sibling_reconfigured")
                elif o == "failed_send":
                    obj.listen = False
                    obj.open_tx_pipe(b"\x31\x4e\x6f\x64\x65")
                    if obj.send(b"hello") is False:
                        sim.count("sibling_send_failed_before_handover")
            except ValueError:
                pass
            continue
        s = st[cur]
        try:
            if o == "mac":
                v = op["v"]
                obj.mac = bytes.fromhex(v) if isinstance(v, str) else v
            elif o == "name":
                if op["kind"] == "none":
                    obj.name = None
                    s["name"] = None
                else:
                    raw = bytes.fromhex(op["v"])
                    try:
                        obj.name = raw.decode() if op["kind"] == "str" else raw
                        s["name"] = raw
                    except ValueError:
                        pass
            elif o == "show_pa_level":
                try:
                    obj.show_pa_level = op["v"]
                    s["show"] = bool(op["v"])
                except ValueError:
                    pass
            elif o == "pa_level":
                obj.pa_level = op["v"]
            elif o == "hop_channel":
                obj.hop_channel()
            elif o == "channel":
                obj.channel = op["v"]
            elif o == "len_available":
                hyp = bytes.fromhex(op["hyp"])
                need = 2 + 6 + 3 + (3 if s["show"] else 0) + (len(s["name"]) + 2 if s["name"] is not None else 0) + 3
                want = 32 - need - len(hyp)
                got = obj.len_available(hyp) if hyp else obj.len_available()
                if got != want:
                    res.add("capacity", {"kind": "len_available"}, "len_available(%d bytes) = %r, exactly %d bytes are free (name %r, show_pa_level %s)"
                            % (len(hyp), got, want, s["name"], s["show"]))
            elif o == "advertise":
                if "chunks" in op:
                    chunks = [bytes.fromhex(c) for c in op["chunks"]]
                    arg = tuple(chunks) if op.get("tuple") else list(chunks)
                    if op.get("keep_list"):
                        # chunk() results (bytearrays) in a list the application keeps
                        arg = [fake_ble.chunk(c[2:], c[1]) for c in chunks]
                        kept_list = arg
                    elif op.get("reuse_list") and kept_list is not None:
                        arg = kept_list
                        sim.count("chunk_list_advertised_again")
                    body = b"".join(chunks)
                    args = (arg,)
                else:
                    buf = bytes.fromhex(op["buf"])
                    body = (bytes([len(buf) + 1, op["type"]]) + buf) if buf else b""
                    args = (buf, op["type"])
                advdata = bleref.ad(0x01, b"\x05")
                if s["show"]:
                    advdata += bleref.ad(0x0A, bytes([obj.pa_level & 0xFF]))
                if s["name"] is not None:
                    advdata += bleref.ad(0x08, s["name"])
                advdata += body
                fits = 2 + 6 + len(advdata) + 3 <= 32
                air0, spi0 = len(w.air.trace), len(radio.spi_log)
                mac = bytes(obj.mac)
                exc = None
                try:
                    obj.advertise(*args)
                except ValueError as e:
                    exc = e
                pkts = [t for t in w.air.trace[air0:] if t["src"] == "B"]
                ups = [x for x in radio.spi_log[spi0:] if x[1] and x[1][0] in (0xA0, 0xB0)]
                if not fits:
                    if exc is None:
                        res.add("capacity", {"kind": "oversize_accepted"}, "advertise() accepted a packet of %d bytes" % (2 + 6 + len(advdata) + 3))
                    elif pkts or ups:
                        res.add("capacity", {"kind": "oversize_reached_radio"}, "rejected advertisement still produced %d uploads / %d packets" % (len(ups), len(pkts)))
                    continue
                if exc is not None:
                    res.add("capacity", {"kind": "fitting_rejected"}, "advertise() raised %r for a packet of %d bytes (name %r, show %s, body %d)"
                            % (exc, 2 + 6 + len(advdata) + 3, s["name"], s["show"], len(body)))
                    continue
                if len(pkts) != 1:
                    res.add("pdu", {"kind": "packet_count"}, "advertise() put %d packets on the air" % len(pkts))
                    continue
                nadv += 1
                t = pkts[0]
                if t["ch"] not in bleref.RF_CH_TO_BLE:
                    res.add("pdu", {"kind": "not_a_ble_frequency"}, "advertisement transmitted on RF channel %d" % t["ch"])
                    continue
                if t["addr"] != b"\x71\x91\x7d\x6b" or len(t["data"]) != 32 or t["esb"]:
                    res.add("pdu", {"kind": "framing"}, "on-air framing: address %s, %d payload bytes, ESB=%s" % (t["addr"].hex(), len(t["data"]), t["esb"]))
                    continue
                d = bleref.decode(t["data"], t["ch"])
                want_pdu = bleref.make_pdu(mac, advdata)
                if d is None or not d["crc_ok"] or d["pdu"] != want_pdu:
                    # would it decode on another channel? (whitening for the wrong channel)
                    other = [ch for ch in bleref.RF_CH_TO_BLE if ch != t["ch"] and (bleref.decode(t["data"], ch) or {}).get("pdu") == want_pdu]
                    kind = "whitened_for_other_channel" if other else ("bad_crc" if d and d["pdu"] == want_pdu else "wrong_pdu")
                    res.add("pdu", {"kind": kind},
                            "RF_CH %d (BLE ch %d): decoded %s crc_ok=%s, expected %s%s"
                            % (t["ch"], bleref.RF_CH_TO_BLE[t["ch"]], d["pdu"].hex() if d else None, d["crc_ok"] if d else None, want_pdu.hex(),
                               "; decodes correctly as RF_CH %r" % other if other else ""))
        except SimAbort:
            raise
        if res.violations:
            break
    res.nontrivial = nadv > 0
    import hashlib
    res.isig = hashlib.blake2b(repr((names, [(o.get("v") if o["op"] in ("name", "show_pa_level", "channel") else None) for o in scn["ops"]],
                                     [len(o.get("buf", "")) + sum(len(c) for c in o.get("chunks", [])) for o in scn["ops"]])).encode(), digest_size=8).hexdigest()
    res.sample = {"second": scn["second"], "ops": [(o["op"], o.get("v")) for o in scn["ops"]][:12]}
