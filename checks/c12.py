"""C12 - the frame queue is a bounded, duplicate-free FIFO of private copies.

Two drivers of the same reference queue model (a list with a capacity and the (origin, id, type) duplicate rule):
(a) in situ: a real node's queue fed by its own update() from frames an injector radio puts on the air - fresh,
    duplicated (same header re-sent with a new PID), arriving while the application dequeues at seeded points and
    changes max_queue_size / fragmentation.  This is where "private copy" matters: the network layer re-uses one
    frame buffer for every reception.
(b) direct histories on FrameQueue / FrameQueueFrag: enqueue(fresh | duplicate | same object mutated after enqueue),
    dequeue, peek, len, max_queue_size raised and lowered below the current length, fragmentation toggles (the
    move-constructors).  Part (b) is a sequential model-based test with no schedule or fault in it; it is kept because
    the property quantifies over such histories, and is labelled direct_evaluation (DESIGN.md section 6).

Clauses:
  fifo      frames leave in the order they were accepted, each once, with the fields and bytes they had when enqueued
  bounded   the queue never holds more than max_queue_size frames; enqueue() returns whether the frame was stored
  dedupe    never two frames with the same origin, frame id and type
  toggle    switching fragmentation moves all queued frames in order and keeps max_queue_size
"""
import hashlib

from nrfsim.core import SimAbort, stream, MS
from nrfsim.harness import Result
from nrfsim.mcu import World, Injector
from checks import netref
from circuitpython_nrf24l01.rf24_network import RF24Network
from circuitpython_nrf24l01.network.structs import RF24NetworkHeader, RF24NetworkFrame, FrameQueue, FrameQueueFrag

PROP = "C12"
LEVEL = "exploration"
SYMS = ["E", "Edup", "Emut", "D", "P", "L", "Mup", "Mdown", "T"]
RULE = ("(b) all sequences to length 6 (quick) / 7 (thorough) over the 9-symbol alphabet {enqueue fresh, enqueue duplicate of an "
        "earlier accepted frame, enqueue then mutate the passed object, dequeue, peek, len, max_queue_size raise, max_queue_size "
        "lower below the current length, fragmentation toggle} against a reference queue, seeded sequences to length 30 beyond (these also with messages "
        "arriving as FIRST + LAST fragment frames, fresh or repeated, and with enqueue() calls whose private copy fails with an injected MemoryError); "
        "(a) seeded in-situ runs through a real node's radio and update() with fresh/duplicated arrivals, dequeue points, "
        "capacity changes and toggles. Non-trivial: >= 2 frames accepted; distinct = distinct operation sequences")
ASSUMPTIONS = ["the swept alphabet uses non-fragment message types; fragment frames (complete FIRST + LAST pairs only, see C06 for everything else) appear in the seeded histories",
               "peek() hands out the queue's own object; mutating it is not generated"]
CLAUSES = {"fifo": "order of acceptance, each exactly once, fields and bytes as enqueued", "bounded": "never more than max_queue_size frames; enqueue() returns whether stored",
           "dedupe": "never two frames with the same origin, frame id and type", "toggle": "fragmentation switch moves all frames in order and keeps max_queue_size"}
SHRINK_KEYS = ("ops",)
CHUNK = 4000


def _nseq(d):
    return sum(9 ** k for k in range(1, d + 1))


def count(tier):
    return (_nseq(6) + 10000 + 1000) if tier == "quick" else (_nseq(7) + 200000 + 20000)


def exhaustive(tier):
    return False


def make(i, base_seed, tier):
    seed = base_seed * 1_000_003 + i
    rng = stream(seed, "work")
    n = _nseq(6 if tier == "quick" else 7)
    nrand = 10000 if tier == "quick" else 200000
    if i < n:
        d, j = 1, i
        while j >= 9 ** d:
            j -= 9 ** d
            d += 1
        ops = []
        for _ in range(d):
            ops.append(SYMS[j % 9])
            j //= 9
        return {"seed": seed, "kind": "direct", "ops": ops, "frag": bool(i % 2)}
    if i < n + nrand:
        # beyond the sweep's alphabet: "Efrag" = a message arriving as FIRST + LAST fragment frames (fresh, or a repeat of an
        # earlier accepted one) - on a FrameQueueFrag the LAST fragment's enqueue() reports whether the re-assembled frame was stored
        # "Efail" = the allocation fault: serialising the caller's frame fails (MemoryError on a small MCU) while enqueue() makes its
        # private copy - the call may raise or refuse, but nothing may have been stored
        return {"seed": seed, "kind": "direct", "ops": [rng.choice(SYMS + ["E", "E", "D", "Efrag", "Efrag", "Efail"]) for _ in range(rng.randint(7, 30))], "frag": rng.random() < 0.5}
    ops = []
    for _ in range(rng.randint(4, 25)):
        k = rng.random()
        if k < 0.45:
            ops.append("A")       # a fresh frame arrives
        elif k < 0.6:
            ops.append("Adup")    # an earlier frame arrives again (new PID)
        elif k < 0.8:
            ops.append("D")
        elif k < 0.88:
            ops.append("Mdown")
        elif k < 0.94:
            ops.append("Mup")
        else:
            ops.append("T")
    return {"seed": seed, "kind": "insitu", "ops": ops, "frag": True}


class RefQueue:
    def __init__(self):
        self.q = []
        self.cap = 6

    def enqueue(self, key, content):
        if len(self.q) >= self.cap:
            return False
        if any(k == key for k, _ in self.q):
            return False
        self.q.append((key, content))
        return True


class _FailingFrame(RF24NetworkFrame):
    """a frame whose serialisation runs out of memory (fault injection at the allocation enqueue() needs for its private copy)"""

    def pack(self):
        raise MemoryError("memory allocation failed (injected)")


def _content(f):
    return (f.header.from_node, f.header.to_node, f.header.frame_id, f.header.message_type, f.header.reserved, bytes(f.message))


def _direct(scn, res):
    rng = stream(scn["seed"], "direct")
    q = FrameQueueFrag() if scn["frag"] else FrameQueue()
    frag = scn["frag"]
    ref = RefQueue()
    accepted = []
    fid = 0
    naccept = 0
    for k, op in enumerate(scn["ops"]):
        if op in ("E", "Edup", "Emut"):
            if op == "Edup" and accepted:
                key, content = accepted[rng.randrange(len(accepted))]
            else:
                fid += 1
                # ids from the whole 16-bit range, with pairs that agree in their low 12 / low 8 bits
                wide = (fid % 5 + rng.choice([0, 0x1000, 0x2000, 0xF000, 0x0100, 0xFF00])) & 0xFFFF
                content = (rng.choice([0o1, 0o2, 0o13]), 0, wide if rng.random() < 0.7 else fid & 0xFFFF, rng.choice([0, 1, 65, 127]), rng.randrange(4), bytes(rng.getrandbits(8) for _ in range(rng.randint(0, 24))))
                key = (content[0], content[2], content[3])
            h = RF24NetworkHeader(content[1], content[3])
            h.from_node, h.frame_id, h.reserved = content[0], content[2], content[4]
            f = RF24NetworkFrame(h, bytearray(content[5]) if op == "Emut" else content[5])
            want = ref.enqueue(key, content)
            got = q.enqueue(f)
            if got is not want:
                kind = "capacity" if len(ref.q) >= ref.cap or len(q) > ref.cap else "duplicate_rule"
                res.add("bounded" if kind == "capacity" else "dedupe", {"kind": "enqueue_return", "why": kind, "after_lowering": ref.cap < 6 and len(ref.q) > ref.cap},
                        "enqueue() returned %r, reference %r (length %d, max_queue_size %d, key %r) at op %d of %r" % (got, want, len(ref.q), ref.cap, key, k, scn["ops"]))
                return
            if want:
                accepted.append((key, content))
                naccept += 1
            if op == "Emut":
                # the caller re-uses / mutates the object it passed in
                f.header.message_type = 99
                f.header.frame_id = 0xABCD
                f.header.from_node = 0o5
                if isinstance(f.message, bytearray) and f.message:
                    f.message[0] ^= 0xFF
                f.message = b"overwritten"
        elif op == "Efail":
            fid += 1
            h = RF24NetworkHeader(0, rng.choice([0, 1, 65, 127]))
            h.from_node, h.frame_id = rng.choice([0o1, 0o2, 0o13]), (0x7000 + fid) & 0xFFFF
            f = _FailingFrame(h, bytes(rng.getrandbits(8) for _ in range(rng.randint(0, 24))))
            try:
                got = q.enqueue(f)
            except MemoryError:
                got = False
            if got is not False and len(ref.q) < ref.cap:
                res.add("bounded", {"kind": "enqueue_return", "why": "copy_failed"}, "enqueue() returned %r for a frame whose copy could not be made (op %d of %r)" % (got, k, scn["ops"]))
                return
        elif op == "Efrag":
            if not frag:
                continue
            old = [a_ for a_ in accepted if a_[1][4] == a_[1][3] and len(a_[1][5]) > 24]
            if old and rng.random() < 0.35:
                key, content = old[rng.randrange(len(old))]
            else:
                fid += 1
                typ = rng.choice([0, 1, 65, 127])
                content = (rng.choice([0o1, 0o2, 0o13]), 0, (0x4000 + fid) & 0xFFFF, typ, typ, bytes(rng.getrandbits(8) for _ in range(rng.randint(25, 48))))
                key = (content[0], content[2], content[3])
            msg = content[5]
            h1 = RF24NetworkHeader(content[1], 148)
            h1.from_node, h1.frame_id, h1.reserved = content[0], content[2], 2
            h2 = RF24NetworkHeader(content[1], 150)
            h2.from_node, h2.frame_id, h2.reserved = content[0], content[2], content[3]
            got1 = q.enqueue(RF24NetworkFrame(h1, msg[:24]))
            want = ref.enqueue(key, content)
            got = q.enqueue(RF24NetworkFrame(h2, msg[24:]))
            if got1 is not True or got is not want:
                kind = "capacity" if len(ref.q) >= ref.cap or len(q) > ref.cap else "duplicate_rule"
                res.add("bounded" if kind == "capacity" else "dedupe", {"kind": "enqueue_return", "why": kind, "fragments": True, "after_lowering": ref.cap < 6 and len(ref.q) > ref.cap},
                        "enqueue(FIRST) returned %r, enqueue(LAST) returned %r, reference %r for the re-assembled frame (length %d, max_queue_size %d, key %r) at op %d of %r"
                        % (got1, got, want, len(ref.q), ref.cap, key, k, scn["ops"]))
                return
            if want:
                accepted.append((key, content))
                naccept += 1
        elif op == "D":
            got = q.dequeue()
            want = ref.q.pop(0) if ref.q else None
            if (got is None) != (want is None) or (got is not None and _content(got) != want[1]):
                res.add("fifo", {"kind": "dequeue"}, "dequeue() returned %r, reference %r at op %d of %r" % (_content(got) if got else None, want[1] if want else None, k, scn["ops"]))
                return
        elif op == "P":
            got = q.peek()
            want = ref.q[0] if ref.q else None
            if (got is None) != (want is None) or (got is not None and _content(got) != want[1]):
                res.add("fifo", {"kind": "peek"}, "peek() returned %r, reference %r" % (_content(got) if got else None, want[1] if want else None))
                return
        elif op == "L":
            pass
        elif op == "Mup":
            q.max_queue_size = 8
            ref.cap = 8
        elif op == "Mdown":
            q.max_queue_size = 2
            ref.cap = 2
        elif op == "T":
            frag = not frag
            q = FrameQueueFrag(q) if frag else FrameQueue(q)
            if q.max_queue_size != ref.cap:
                res.add("toggle", {"kind": "capacity_lost"}, "after the fragmentation toggle max_queue_size = %r, it was %d" % (q.max_queue_size, ref.cap))
                return
        if len(q) != len(ref.q):
            res.add("toggle" if op == "T" else "bounded", {"kind": "length", "op": op}, "len(queue) = %d, reference %d after %s (op %d of %r)" % (len(q), len(ref.q), op, k, scn["ops"]))
            return
        keys = [(f.header.from_node, f.header.frame_id, f.header.message_type) for f in q._queue] if hasattr(q, "_queue") else []
        if len(set(keys)) != len(keys):
            res.add("dedupe", {"kind": "two_equal_frames"}, "queue holds two frames with the same origin/id/type: %r" % keys)
            return
    # drain: order and content
    rest = []
    while len(q):
        rest.append(_content(q.dequeue()))
    if rest != [c for _, c in ref.q]:
        res.add("fifo", {"kind": "drain_order"}, "remaining frames %r, reference %r" % ([(r[0], r[2]) for r in rest], [(c[0], c[2]) for _, c in ref.q]))
    res.nontrivial = naccept >= 2
    res.count("direct_evaluation:histories", 1)
    res.isig = hashlib.blake2b(repr((scn["ops"], scn["frag"])).encode(), digest_size=8).hexdigest()
    res.sample = {"kind": "direct_evaluation", "ops": scn["ops"][:12], "frag": scn["frag"]}


def run(scn):
    res = Result()
    if scn["kind"] == "direct":
        _direct(scn, res)
        return res
    w = World(scn["seed"], max_events=2_000_000, max_time=120_000 * MS)
    try:
        _insitu(scn, w, res)
    except SimAbort:
        pass
    finally:
        res.absorb_world(w)
        w.close()
    return res


def _insitu(scn, w, res):
    sim = w.sim
    rng = stream(scn["seed"], "insitu")
    rn = w.radio("N")
    node = RF24Network(*w.bus(rn), 0)
    inj = Injector(w, "INJ", channel=rn.r[5], rate=1, aw=5, crc=2, esb=True, dpl=True)
    ref = RefQueue()
    sent = []
    out = []     # (frame object as dequeued, content at dequeue time, expected content)
    fid = 0
    naccept = 0
    for k, op in enumerate(scn["ops"]):
        sim.log("op", "N", op)
        if op in ("A", "Adup"):
            if op == "Adup" and sent:
                key, content = sent[rng.randrange(len(sent))]
            else:
                fid += 1
                child = rng.choice([0o1, 0o2, 0o3])
                content = (child, 0, fid, rng.choice([0, 1, 65, 127]), 0, bytes(rng.getrandbits(8) for _ in range(rng.randint(0, 24))))
                key = (content[0], content[2], content[3])
                sent.append((key, content))
            frame = netref.pack_header(content[0], content[1], content[2], content[3], content[4]) + content[5]
            inj.send(rn.pipe_addr(netref.child_pipe(content[0])), frame, want_ack=False)
            if ref.enqueue(key, content):
                naccept += 1
            node.update()
        elif op == "D":
            got = node.read()
            want = ref.q.pop(0) if ref.q else None
            if (got is None) != (want is None) or (got is not None and _content(got) != want[1]):
                res.add("fifo", {"kind": "dequeue", "insitu": True}, "read() returned %r, reference %r (op %d of %r)" % (_content(got) if got else None, want[1] if want else None, k, scn["ops"]))
                return
            if got is not None:
                out.append((got, _content(got)))
        elif op == "Mdown":
            node.queue.max_queue_size = 2
            ref.cap = 2
        elif op == "Mup":
            node.queue.max_queue_size = 8
            ref.cap = 8
        elif op == "T":
            node.fragmentation = not node.fragmentation
            if node.queue.max_queue_size != ref.cap:
                res.add("toggle", {"kind": "capacity_lost", "insitu": True}, "after the fragmentation toggle max_queue_size = %r, it was %d" % (node.queue.max_queue_size, ref.cap))
                return
        if len(node.queue) != len(ref.q):
            res.add("toggle" if op == "T" else "bounded", {"kind": "length", "op": op, "insitu": True, "after_lowering": ref.cap == 2},
                    "len(queue) = %d, reference %d after %s (max_queue_size %d; op %d of %r)" % (len(node.queue), len(ref.q), op, ref.cap, k, scn["ops"]))
            return
    # private copies: frames handed out earlier must not have been touched by later receptions
    for got, was in out:
        if _content(got) != was:
            res.add("fifo", {"kind": "aliased_copy", "insitu": True}, "a frame dequeued earlier changed afterwards: %r -> %r" % (was[:5], _content(got)[:5]))
            return
    rest = []
    while node.available():
        rest.append(_content(node.read()))
    if rest != [c for _, c in ref.q]:
        res.add("fifo", {"kind": "drain_order", "insitu": True}, "remaining frames %r, reference %r" % ([(r[0], r[2]) for r in rest], [(c[0], c[2]) for _, c in ref.q]))
    res.nontrivial = naccept >= 2
    res.isig = hashlib.blake2b(repr(("insitu", scn["ops"], scn["seed"] % 7)).encode(), digest_size=8).hexdigest()
    res.sample = {"kind": "insitu", "ops": scn["ops"][:14]}


def same_class(a, b):
    return (a.get("kind"), a.get("why"), a.get("after_lowering")) == (b.get("kind"), b.get("why"), b.get("after_lowering"))
