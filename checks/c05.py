"""C05 - a network message reaches its destination exactly once, intact, over any tree.

Topology = seeded parent-closed set of 2..10 addresses (depth <= 4); every node is a real RF24Network /
RF24NetworkRoutingOnly object on its own chip and MCU running the canonical update loop in its own task.
Messages are sent one at a time; a quarter of the loss-free runs begin with a node's completely failed write to an absent neighbour; in a seventh a destination reads late while 2-4 messages of one type from different origins with coinciding frame ids wait in its queue; the destination of a direct message of >= 4 fragments is sometimes busy for 30-70 ms right after its radio stored one of the first fragments (explicit MCU-stall fault, nothing lost); a third of the nodes constructed with another address and re-addressed before start, a quarter with ret_sys_msg on, some with allow_multicast off; the history oracle runs at quiescence.

Clauses (loss-free medium):
  delivered    the destination's application log holds the message once (bytes, type, origin) and write()/send() returned True
  nobody_else  no other node's application saw it (routers forward without queueing)
  intact       whatever any application dequeues is byte-for-byte a message that was sent to it
  at_most_once no message is dequeued twice anywhere
  mtu          messages > 24 bytes travel as >= 2 frames (every on-air payload is <= 32 bytes by construction of the chip)
With injected loss (separate configuration `lossy`) only intact / nobody_else are enforced: the statement promises
exactly-once only "provided no packet is lost" (a lost link-layer ACK legitimately makes a hop forward a frame twice).
"""
from nrfsim.core import SimAbort, stream, MS, US
from nrfsim.harness import Result
from nrfsim.mcu import World, random_mcu_knobs
from checks import netref, common
from checks.netcommon import Net, net_write

PROP = "C05"
LEVEL = "exploration"
RULE = ("seeded scenarios: parent-closed topology of 2..10 nodes (depth <= 4, biased to routes of 1, 2, 3, 4+ hops, mixed "
        "RF24Network / RF24NetworkRoutingOnly), per-node MCU personality (SPI cost 5..400 us, poll period, clock rate +-2 %, "
        "epoch, short stalls), 1..4 messages (length 0..144 or 0..24 with fragmentation off, boundary-biased; type 0..127; "
        "frame-id counters seeded per node incl. values next to 0xFFFF) sent one at a time; 15 % of runs use the lossy "
        "configuration (packet/ACK loss ordinals). Non-trivial: >= 1 forwarded hop or >= 2 fragments; distinct = distinct "
        "abstract event sequences (kind, node) of air/chip/API events")
ASSUMPTIONS = ["fault-free claims: every node performs an SPI transaction in <= 400 us, polls within 2 ms and stalls <= 5 ms",
               "collisions destroy both packets (M10); none is injected in the loss-free configuration",
               "chip/air model decisions M1-M4, M7-M9"]
CLAUSES = {"delivered": "delivered exactly once with identical bytes, type and origin; write() returns True",
           "nobody_else": "to no other node's queue", "intact": "identical bytes", "at_most_once": "exactly once",
           "mtu": "messages longer than 24 bytes travel as frames of at most 32 on-air bytes"}
PROBES = ["collision", "max_rt", "fault:mcu_stall_on_rx", "readdressed", "write_to_absent_neighbour_failed", "backlog_at_late_reader"]
SHRINK_KEYS = ("msgs", "faults")
CHUNK = 10
MAX_INCONCLUSIVE = 0.02
BOUNDARY = [0, 1, 23, 24, 25, 47, 48, 49, 72, 96, 120, 143, 144]


def count(tier):
    return 1200 if tier == "quick" else 30000


def exhaustive(tier):
    return False


def rand_topology(rng, nmax=10, want_deep=True):
    """parent-closed address set"""
    nodes = {0}
    n = rng.randint(2, nmax)
    tries = 0
    while len(nodes) < n and tries < 200:
        tries += 1
        base = rng.choice(sorted(nodes))
        lv = netref.level(base)
        if lv >= 4:
            continue
        # bias: extend the deepest nodes to get long routes
        if want_deep and rng.random() < 0.5:
            deep = max(nodes, key=netref.level)
            if netref.level(deep) < 4:
                base = deep
                lv = netref.level(base)
        child = base | (rng.randint(1, 5) << (3 * lv))
        nodes.add(child)
    return sorted(nodes)


def make(i, base_seed, tier):
    seed = base_seed * 1_000_003 + i
    rng = stream(seed, "work")
    kr = stream(seed, "knobs")
    topo = rand_topology(rng)
    lossy = rng.random() < 0.15
    frag = rng.random() < 0.8
    nodes = []
    for a in topo:
        k = random_mcu_knobs(kr, fault=lossy)
        nodes.append({"addr": a, "cls": "net", "knobs": k, "fid": rng.choice([0, 1, 0xFFFE, 0xFFFF, rng.getrandbits(16)]),
                      "backend": rng.choice(["spidev", "busio"]), "plus": rng.random() < 0.8})
    msgs = []
    for _ in range(rng.randint(1, 4)):
        src, dst = rng.sample(topo, 2)
        if rng.random() < 0.5:
            # prefer long routes
            cands = sorted(((len(netref.path(a, b)), a, b) for a in topo for b in topo if a != b), reverse=True)
            _, src, dst = cands[rng.randrange(max(1, len(cands) // 4))]
        hi = 144 if frag else 24
        ln = rng.choice([x for x in BOUNDARY if x <= hi]) if rng.random() < 0.5 else rng.randint(0, hi)
        msgs.append({"src": src, "dst": dst, "len": ln, "type": rng.randint(0, 127), "seed": rng.getrandbits(20),
                     "api": rng.choice(["write", "send"])})
    ends = {m["src"] for m in msgs} | {m["dst"] for m in msgs}
    for nd in nodes:
        if nd["addr"] not in ends and rng.random() < 0.4:
            nd["cls"] = "router"
    xr = stream(seed, "ext")
    for nd in nodes:
        # per-node configuration history: constructed with another address (any level) and re-addressed before start;
        # non-default options that must not matter for user messages
        if xr.random() < 0.3:
            lv = xr.randint(0, 4)
            nd["first_addr"] = sum(xr.randint(1, 5) << (3 * d) for d in range(lv))
        if xr.random() < 0.25:
            nd["ret_sys_msg"] = True
        if xr.random() < 0.15 and nd["cls"] == "net":
            nd["no_multicast"] = True
        if frag and xr.random() < 0.2:
            nd["frag_toggled"] = True       # fragmentation was switched off for a while and on again before the run
    stall = None
    if not lossy and xr.random() < 0.25:
        # history: a node's earlier write to a neighbour that is not there failed completely (all retries); afterwards it takes part in
        # the traffic like any other node
        cands = [nd["addr"] for nd in nodes if nd["cls"] == "net" and netref.level(nd["addr"]) < 4]
        if cands:
            a_ = xr.choice(cands)
            free = [a_ | (d << (3 * netref.level(a_))) for d in range(1, 6) if (a_ | (d << (3 * netref.level(a_)))) not in topo]
            if free:
                msgs.insert(xr.randint(0, len(msgs)), {"kind": "failed_write", "src": a_, "dst": xr.choice(free), "len": xr.randint(0, 24), "type": xr.randint(0, 127),
                                                       "seed": xr.getrandbits(20), "api": "write"})
    xt = stream(seed, "tweak")
    # (250 kbps is left out: the chip model lets a radio whose MCU leaves RX mode during a 300 us auto-ACK start its own packet before
    # that ACK has ended - a limit of the model, DESIGN.md section 8 - so only 1 and 2 Mbps networks are generated)
    rate = xt.choice([1, 1, 1, 2, 250]) if not lossy else 1
    if not lossy and xt.random() < 0.3:
        # the application of some node touches its radio at run time between messages - things that change nothing about the network:
        # a power-saving nap, another PA level, its interrupt mask, re-assigning the channel / retry setup it already has
        for _ in range(xt.randint(1, 2)):
            msgs.insert(xt.randint(0, len(msgs)), {"kind": "tweak", "node": xt.choice(topo), "what": xt.choice(["nap", "nap", "pa_level", "pa_level", "irq", "channel", "retries"]),
                                                   "v": xt.choice([-18, -12, -6, 0]), "ms": xt.choice([0, 1, 5])})
    backlog = None
    if not lossy and len(topo) >= 3 and xr.random() < 0.15:
        # a destination whose application reads late: several messages from different origins wait in its queue - with coinciding
        # frame ids (every device counts its own frames) and the same message type
        d_ = xr.choice(topo)
        srcs = xr.sample([a for a in topo if a != d_], min(len(topo) - 1, xr.randint(2, 4)))
        fid_ = xr.choice([0, 1, 0xFFFF, xr.getrandbits(16)])
        ty_ = xr.randint(0, 127)
        for nd in nodes:
            if nd["addr"] in srcs:
                nd["fid"] = fid_
                nd["cls"] = "net"
            if nd["addr"] == d_:
                nd["cls"] = "net"
        backlog = {"dst": d_, "msgs": [{"src": a, "len": xr.choice([0, 5, 24, 30]) if frag else xr.randint(0, 24), "type": ty_, "seed": xr.getrandbits(20)} for a in srcs]}
    direct_long = [m for m in msgs if m.get("kind") is None and len(netref.path(m["src"], m["dst"])) == 2 and m["len"] > 72]
    if not lossy and direct_long and xr.random() < 0.6:
        # explicit fault: the destination of a direct message of >= 4 fragments is busy elsewhere for 30-70 ms right after its radio
        # stored one of the first fragments (the radio goes on acknowledging until its 3-level RX FIFO is full, then the sender's
        # re-transmissions wait it out: nothing is lost, and the per-fragment retry budget of 3 x tx_timeout covers the pause).
        # Routed or acknowledged-type messages are left out: there the pause would eat into route_timeout, which is another budget
        m_ = xr.choice(direct_long)
        stall = {"node": m_["dst"], "src": m_["src"], "ms": xr.uniform(30, 70), "nth": xr.randint(0, 2)}
    faults = []
    if lossy:
        ar = stream(seed, "air")
        p = rng.choice([0.02, 0.05, 0.1, 0.2])
        faults = [{"n": n} for n in range(600) if ar.random() < p]
    return {"seed": seed, "rate": rate, "nodes": nodes, "msgs": msgs, "frag": frag, "lossy": lossy, "faults": faults, "stall_on_rx": stall, "backlog": backlog,
            # (at 250 kbps a frame is on the air four times as long: the application sizes its timeouts accordingly)
            "tx_timeout": rng.choice([25, 25, 50]) * (3 if rate == 250 else 1), "route_timeout": rng.choice([75, 75, 150]) * (5 if rate == 250 else 1)}


def run(scn):
    res = Result()
    w = World(scn["seed"], plan=scn.get("faults"), max_events=3_000_000, max_time=60_000 * MS)
    net = Net(w)
    try:
        _run(scn, w, net, res)
    except SimAbort:
        pass
    finally:
        res.absorb_world(w)
        w.close()
    return res


def payload(seed, n):
    r = stream(seed, "msg")
    return bytes(r.getrandbits(8) for _ in range(n))


def build(scn, w, net):
    for nd in scn["nodes"]:
        def setup(node, nd=nd):
            if nd.get("first_addr") is not None:
                node.node_address = nd["addr"]
                w.sim.count("readdressed")
            if nd.get("ret_sys_msg"):
                node.ret_sys_msg = True
            if nd.get("frag_toggled") and scn.get("frag", True) and hasattr(node, "fragmentation"):
                node.fragmentation = False
                node.fragmentation = True
            if nd.get("no_multicast") and hasattr(node, "allow_multicast"):
                node.allow_multicast = False
                node.node_address = node.node_address
            node.tx_timeout = scn.get("tx_timeout", 25)
            node.route_timeout = scn.get("route_timeout", 75)
            if scn.get("rate", 1) != 1:
                node.data_rate = scn["rate"]      # the whole network runs at 2 Mbps / 250 kbps
                w.sim.count("network_data_rate_%d" % scn["rate"])
            if not scn.get("frag", True):
                node.fragmentation = False
        nc = net.add(nd["addr"], nd["cls"], nd["addr"] if nd.get("first_addr") is None else nd["first_addr"], knobs=nd["knobs"], plus=nd.get("plus", True),
                     backend=nd.get("backend", "spidev"), setup=setup)
        nc.mcu.next_id = nd.get("fid", 0)
    rule = scn.get("stall_on_rx")
    if rule and rule["node"] in net.nodes:
        tgt = net.nodes[rule["node"]]
        seen = []

        def on_store(pipe, data, tgt=tgt):
            if (len(data) < 8 or (data[0] | (data[1] << 8)) != rule["src"] or (data[2] | (data[3] << 8)) != rule["node"] or data[6] not in (148, 149)
                    or len(netref.path(rule["src"], rule["node"])) != 2):
                return      # only fragments of a direct message addressed to this very node arm the fault
            seen.append(1)
            if len(seen) == rule["nth"] + 1:
                tgt.mcu.pending_stall = int(rule["ms"] * MS)
                w.sim.count("fault:mcu_stall_on_rx")
        tgt.radio.on_store = on_store
    net.start()


def _run(scn, w, net, res):
    sim = w.sim
    build(scn, w, net)
    sim.advance(3 * MS)
    lossy = scn.get("lossy", False)
    sent = []   # (src, dst, type, bytes)
    addrs = {nd["addr"] for nd in scn["nodes"]}
    for m in scn["msgs"]:
        if m.get("kind") == "failed_write":
            if m["src"] in addrs and m["dst"] not in addrs and net.nodes[m["src"]].cls == "net":
                def fail(node, m=m):
                    from circuitpython_nrf24l01.network.structs import RF24NetworkHeader, RF24NetworkFrame
                    return node.write(RF24NetworkFrame(RF24NetworkHeader(m["dst"], m["type"]), payload(m["seed"], m["len"])))
                cf = net.call(m["src"], "write", fail, timeout=5000 * MS)
                net.wait_quiet(quiet=5 * MS, timeout=2000 * MS)
                if cf.done and cf.exc is None and cf.result is False:
                    sim.count("write_to_absent_neighbour_failed")
            continue
        if m.get("kind") == "tweak":
            if m["node"] in addrs:
                def tweak(node, m=m):
                    import circuitpython_nrf24l01.network.mixins as mx
                    if m["what"] == "nap":
                        node.power = False
                        if m["ms"]:
                            mx.time.sleep(m["ms"] / 1000)
                        node.power = True
                    elif m["what"] == "pa_level":
                        node.pa_level = m["v"]
                    elif m["what"] == "irq":
                        node.interrupt_config(True, False, bool(m["ms"]))
                    elif m["what"] == "channel":
                        node.channel = node.channel
                    else:
                        node.set_auto_retries(*node.get_auto_retries())
                ct = net.call(m["node"], "tweak", tweak, timeout=5000 * MS)
                if ct.done and ct.exc is not None:
                    res.add("delivered", {"kind": "attribute_raised", "what": m["what"], "exc": type(ct.exc).__name__}, "%s on node %o raised %r\n%s" % (m["what"], m["node"], ct.exc, ct.tb))
                    return
                sim.advance(2 * MS)      # (the radio's power-up time: the application knows it has to wait before it expects traffic)
                sim.count("radio_touched_at_run_time")
            continue
        if m["src"] not in addrs or m["dst"] not in addrs or m["src"] == m["dst"]:
            continue
        if net.nodes[m["src"]].cls != "net":
            continue
        data = payload(m["seed"], m["len"])
        marks = {k: len(nc.log) for k, nc in net.nodes.items()}
        a0 = len(w.air.trace)
        hops = len(netref.path(m["src"], m["dst"])) - 1
        nfrag = max(1, (m["len"] + 23) // 24)

        def do(node, m=m, data=data):
            from circuitpython_nrf24l01.network.structs import RF24NetworkHeader, RF24NetworkFrame
            h = RF24NetworkHeader(m["dst"], m["type"])
            if m["api"] == "send":
                return node.send(h, data)
            return node.write(RF24NetworkFrame(h, data))
        c = net.call(m["src"], "write", do, timeout=5000 * MS)
        if not c.done:
            res.add("delivered", {"kind": "write_did_not_return"}, "write() from %o to %o did not return within 5 s" % (m["src"], m["dst"]))
            return
        if c.exc is not None:
            res.add("delivered", {"kind": "write_raised", "exc": type(c.exc).__name__}, "write() raised %r\n%s" % (c.exc, c.tb))
            return
        quiet = net.wait_quiet(quiet=(scn.get("route_timeout", 75) // 3 + 3) * MS, timeout=3000 * MS)
        sent.append((m["src"], m["dst"], m["type"], data))
        if hops > 1 or nfrag > 1:
            res.nontrivial = True
        new = {k: nc.log[marks[k]:] for k, nc in net.nodes.items()}
        sig_base = {"frags": min(nfrag, 2), "hops": min(hops, 2), "routed": hops > 1, "fragmented": nfrag > 1}
        # ---- nobody_else / intact / at_most_once
        for k, entries in new.items():
            for (t, frm, to, typ, body, fid) in entries:
                if k != m["dst"]:
                    res.add("nobody_else", dict(sig_base, kind="foreign_queue"),
                            "node %o dequeued a frame from %o type %d (%d bytes) that was addressed to %o" % (k, frm, typ, len(body), m["dst"]))
                elif (frm, typ, body) != (m["src"], m["type"], data):
                    res.add("intact", dict(sig_base, kind="wrong_content", len_got=len(body), len_sent=len(data)),
                            "destination %o dequeued from %o type %d %d bytes; sent from %o type %d %d bytes%s"
                            % (k, frm, typ, len(body), m["src"], m["type"], len(data), "" if body != data else " (same bytes)"))
        got = [e for e in new[m["dst"]] if (e[1], e[3], e[4]) == (m["src"], m["type"], data)]
        if len(got) > 1 and not lossy:
            res.add("at_most_once", dict(sig_base, kind="duplicate_delivery"), "message delivered %d times to %o" % (len(got), m["dst"]))
        if not lossy:
            if not quiet:
                res.add("delivered", dict(sig_base, kind="no_quiescence"), "network did not become quiet within 3 s after write()")
            t_call = c.t0
            dropped = [(k, n) for k, nc in net.nodes.items() for (t, n) in nc.radio.rx_discards if t >= t_call]
            if (len(got) == 0 or c.result is not True) and dropped:
                # distinguishable cause: a node threw away frames its radio had received (no packet was lost on the air)
                res.add("delivered", dict(sig_base, kind="received_frames_discarded", ret=bool(c.result)),
                        "message %o -> %o (%d bytes, %d fragments, %d hops) %s; node(s) %r flushed unread received frames out of their RX FIFO"
                        % (m["src"], m["dst"], m["len"], nfrag, hops, "was not delivered" if not got else "was delivered but write() returned %r" % (c.result,),
                           [(oct(k) if isinstance(k, int) else k, n) for k, n in dropped]))
            elif len(got) == 0:
                res.add("delivered", dict(sig_base, kind="not_delivered", ret=bool(c.result)),
                        "message %o -> %o (%d bytes, %d fragments, %d hops, type %d) was not delivered; write() returned %r"
                        % (m["src"], m["dst"], m["len"], nfrag, hops, m["type"], c.result))
            elif c.result is not True:
                res.add("delivered", dict(sig_base, kind="result_mismatch", ret=bool(c.result)),
                        "message %o -> %o (%d bytes, %d hops, type %d) was delivered but write() returned %r" % (m["src"], m["dst"], m["len"], hops, m["type"], c.result))
            # ---- mtu
            frames = {t["data"] for t in w.air.trace[a0:] if t["src"] == "n%s" % m["src"] and not t["ack"]}
            if nfrag > 1 and len(frames) < 2 and c.result:
                res.add("mtu", {"kind": "not_fragmented"}, "%d-byte message left its origin as %d frame(s)" % (m["len"], len(frames)))
        if res.violations:
            break
    bl = scn.get("backlog")
    if bl and not res.violations and bl["dst"] in net.nodes and not lossy:
        D = net.nodes[bl["dst"]]
        D.no_read = True
        mark = len(D.log)
        expect = []
        for m in bl["msgs"][:6]:
            if m["src"] not in net.nodes or net.nodes[m["src"]].cls != "net":
                continue
            data = payload(m["seed"], m["len"])

            def do_b(node, m=m, data=data):
                from circuitpython_nrf24l01.network.structs import RF24NetworkHeader, RF24NetworkFrame
                return node.write(RF24NetworkFrame(RF24NetworkHeader(bl["dst"], m["type"]), data))
            cb = net.call(m["src"], "write", do_b, timeout=5000 * MS)
            net.wait_quiet(quiet=(scn.get("route_timeout", 75) // 3 + 3) * MS, timeout=3000 * MS)
            expect.append((m["src"], m["type"], data, cb.result if cb.done else None))
        D.no_read = False
        net.call(bl["dst"], "read_all", lambda node: None, timeout=1000 * MS)
        got_b = [(e[1], e[3], e[4]) for e in D.log[mark:]]
        for (src_, ty_, data_, r_) in expect:
            n_ = got_b.count((src_, ty_, data_))
            if n_ != 1:
                res.add("delivered", {"kind": "not_delivered_to_late_reader" if n_ == 0 else "duplicate_at_late_reader", "routed": len(netref.path(src_, bl["dst"])) > 2},
                        "message %o -> %o (type %d, %d bytes) was dequeued %d times by a destination that read late (write() returned %r; %d messages waited, from %r)"
                        % (src_, bl["dst"], ty_, len(data_), n_, r_, len(expect), [oct(x[0]) for x in expect]))
                break
        sim.count("backlog_at_late_reader", len(expect))
    net.shutdown()
    for k, nc in net.nodes.items():
        for (t, e, tb) in nc.update_exc:
            res.add("delivered", {"kind": "update_raised", "exc": type(e).__name__}, "update() on node %o raised %r\n%s" % (k, e, tb))
    res.sample = {"topology": [oct(nd["addr"]) for nd in scn["nodes"]], "routers": [oct(nd["addr"]) for nd in scn["nodes"] if nd["cls"] == "router"],
                  "msgs": [(oct(m["src"]), oct(m["dst"]), m["len"], m["type"]) for m in scn["msgs"] if m.get("kind") != "tweak"] + [(m["what"], oct(m["node"])) for m in scn["msgs"] if m.get("kind") == "tweak"], "lossy": lossy, "frag": scn.get("frag")}
