"""C13 - NETWORK_ACK: awaited only when needed, sent once, believed only if received.

Line/tree topologies giving routes of 1..8 hops; all nodes are real RF24Network objects running as tasks.  For a
route of h hops there are h forward transmissions and h-1 NETWORK_ACK relays; the check enumerates "fails
completely" for each one of them, "link-layer ACKs of hop k lost although the payload was stored", and no fault.

Ground truth: chip transmit cycles (first-hop acceptance = TX_DS of the origin's cycle for the frame) and the
sniffer (NETWORK_ACK frames addressed to the origin that were stored by the origin's radio).

Clauses:
  true_only_if   write() True  => a NETWORK_ACK addressed to the sender entered the sender's radio between first-hop
                 acceptance and the return
  false_only_if  write() False => the first hop failed, or no NETWORK_ACK had reached the sender's radio earlier than
                 route_timeout - margin after acceptance (margin: 2 poll periods + 5 ms)
  bounded        write() returns within transmit budget + route_timeout + slack
  once           NETWORK_ACK frames originated for one forwarded frame: <= 1, and exactly 1 when the last hop's radio
                 transmission completed with TX_DS at the delivering node
  never          types outside 65..191, direct neighbours, multicasts and NETWORK_ACKs themselves cause no NETWORK_ACK
"""
from nrfsim.core import SimAbort, stream, MS, US
from nrfsim.harness import Result
from nrfsim.mcu import World, random_mcu_knobs
from checks import netref
from checks.netcommon import Net
from checks.c05 import payload

PROP = "C13"
LEVEL = "fault_enumeration"
RULE = ("for routes of h = 1..8 hops over line/tree topologies: every single-failure position - forward transmission k "
        "(k = 0..h-1) fails completely, link-layer ACKs of hop k lost while the payload is stored, NETWORK_ACK relay j "
        "(j = 0..h-2) fails completely - plus the fault-free run, for ack-type and non-ack-type messages (quick: sampled "
        "types, h in {1,2,3,5,8}; thorough: all types 0..255 except those the network layer consumes x all h); seeded "
        "runs beyond with random double faults, cross traffic routed through the sender (a foreign NETWORK_ACK passes it while "
        "its own never arrives - or does), a stream of system-type frames for the sender that outlasts its wait, a calibrated family (route_timeout set just above the measured NETWORK_ACK round trip, first hop deaf "
        "for 10-25 ms), frame objects still carrying another node's address, nodes with allow_multicast off / multicast_relay on, tx_timeout 5..150 ms, route_timeout 15..450 ms, MCU jitter. Non-trivial: "
        "route has an intermediate node; distinct = distinct abstract event sequences")
ASSUMPTIONS = ["single-frame messages (<= 24 bytes): the property's scope", "chip/air model M1-M4, M7, M9",
               "a NETWORK_ACK sitting unread in the RX FIFO at the deadline is a legitimate timeout (margin = 2 poll periods + 5 ms)"]
CLAUSES = {"true_only_if": "True only if a NETWORK_ACK addressed to the sender arrived within route_timeout",
           "false_only_if": "False otherwise", "bounded": "never blocking longer than the transmit and route timeouts allow",
           "once": "the delivering node sends exactly one NETWORK_ACK", "never": "other types / neighbours / multicasts / NETWORK_ACKs cause none"}
PROBES = ["max_rt", "late_ack_calibrated", "readdressed_after_timeouts_were_set"]
SHRINK_KEYS = ("faults",)
CHUNK = 8
MAX_INCONCLUSIVE = 0.02
CONSUMED = {128, 130, 131, 148, 149, 150, 193, 194, 195}
BR_A = [0o1, 0o11, 0o111, 0o1111]
BR_B = [0o2, 0o22, 0o222, 0o2222]
_ENUM = {}


def route(h):
    """a route of exactly h hops: (src, dst)"""
    if h <= 4:
        return 0, BR_B[h - 1]
    return BR_A[h - 5], BR_B[3]


def _enum(tier):
    if tier in _ENUM:
        return _ENUM[tier]
    cases = []
    hs = [1, 2, 3, 5, 8] if tier == "quick" else list(range(1, 9))
    types = [0, 64, 65, 66, 127, 129, 191, 192, 196, 255] if tier == "quick" else [t for t in range(256) if t not in CONSUMED]
    for h in hs:
        for t in types:
            cases.append((h, t, {"kind": "none"}))
        # single-failure positions with an ack type and with a non-ack type
        for t in ((65, 127, 33) if tier == "quick" else (65, 100, 127, 191, 33, 200)):
            for k in range(h):
                cases.append((h, t, {"kind": "fwd", "pos": k}))
                cases.append((h, t, {"kind": "linkack", "pos": k}))
            for j in range(h - 1):
                cases.append((h, t, {"kind": "nack", "pos": j}))
    _ENUM[tier] = cases
    return cases


def count(tier):
    return len(_enum(tier)) + (600 if tier == "quick" else 6000)


def exhaustive(tier):
    return False


def fault_rules(path, typ, f):
    names = ["n%s" % a for a in path]
    k = f.get("pos", 0)
    if f["kind"] == "fwd":
        return [{"src": names[k], "ack": False, "ptype": typ}]
    if f["kind"] == "linkack":
        return [{"src": names[k + 1], "ack": True, "dst": names[k]}]
    if f["kind"] == "nack":
        # relay j: NETWORK_ACK transmitted by the node j hops back from the delivering router
        return [{"src": names[len(path) - 2 - k], "ack": False, "ptype": 193}]
    return []


def make(i, base_seed, tier):
    seed = base_seed * 1_000_003 + i
    rng = stream(seed, "work")
    kr = stream(seed, "knobs")
    en = _enum(tier)
    if i < len(en):
        h, t, f = en[i]
        mode = "unicast"
        faults_desc = [f]
    else:
        h = rng.randint(1, 8)
        t = rng.choice([x for x in range(256) if x not in CONSUMED])
        mode = rng.choice(["unicast"] * 6 + ["multicast", "direct"])
        faults_desc = []
        for _ in range(rng.choice([0, 1, 2, 2])):
            kind = rng.choice(["fwd", "linkack", "nack"])
            if kind == "nack" and h < 2:
                continue
            faults_desc.append({"kind": kind, "pos": rng.randrange(h - 1 if kind == "nack" else h)})
    src, dst = route(h)
    if rng.random() < 0.5:
        src, dst = dst, src
    cross = None
    late = None
    if i >= len(en) and rng.random() < 0.2:
        # calibrated: a first message measures the NETWORK_ACK round trip; route_timeout is then set just above it and the
        # second message meets a first hop that is deaf for a while (link-layer re-transmissions succeed later)
        mode, faults_desc = "unicast", []
        h = rng.randint(2, 5)
        t = rng.choice([65, 100, 127, 191])
        late = {"outage_ms": rng.choice([10, 15, 25])}
    if i >= len(en) and late is None and rng.random() < 0.35:
        # cross traffic through the sender: the sender is a router (0o1) whose own NETWORK_ACK never arrives, while a
        # descendant's message - and the NETWORK_ACK answering it - pass through it during its wait
        mode = "unicast"
        src, dst = 0o1, rng.choice([0o22, 0o222])
        t = rng.choice([65, 100, 127, 191])
        faults_desc = [{"kind": rng.choice(["nack", "fwd"]), "pos": rng.choice([0, 1])}] if rng.random() < 0.5 else []
        cross = {"from": 0o11, "to": rng.choice([0o3, 0o33]), "delay_ms": rng.choice([0, 0, 1, 1, 2, 3, 8, 20]), "type": rng.choice([65, 90, 127]),
                 "slow_sender": rng.random() < 0.6}
        if stream(seed, "busy").random() < 0.3:
            cross["busy_ms"] = stream(seed, "busy2").choice([2, 3, 5, 8])
            cross["delay_ms"] = 0
            cross["type"] = stream(seed, "busy3").choice([10, 65, 90])
        xr = stream(seed, "ext")
        if xr.random() < 0.5:
            # explicit fault: from the moment the sender's radio stores the relayed frame its own transmissions are lost for a few
            # milliseconds - the first attempt to pass that frame on fails, the re-transmissions of the stand-by phase get through
            cross["mute_ms"] = xr.choice([3, 6, 10, 15])
            cross["delay_ms"] = xr.choice([0, 1, 2, 3, 4, 5, 6, 8])
            cross["slow_sender"] = True
            faults_desc = []
    if i >= len(en) and late is None and cross is None and rng.random() < 0.08:
        # a stream of system-type frames for the sender (its application asked for them: ret_sys_msg) arrives from its child during the
        # whole wait and beyond, paced by the sender's own slower MCU - every poll of the wait finds a frame; the NETWORK_ACK never comes
        mode = "unicast"
        src, dst = 0o1, rng.choice([0o22, 0o222])
        t = rng.choice([65, 100, 127, 191])
        faults_desc = [{"kind": rng.choice(["nack", "fwd"]), "pos": 1}]
        cross = {"from": 0o11, "to": 0o1, "delay_ms": 0, "type": rng.choice([200, 210, 255]), "slow_sender": False, "stream": True}
    path = netref.path(src, dst)
    faults = []
    for f in faults_desc:
        faults += fault_rules(path, t, f)
    if cross:
        faults = [f for f in faults if f.get("ptype") != t or f.get("src") != "n%s" % path[0]]   # the sender's own first hop works
    nodes = sorted(set(path) | {netref.parent(a) for a in path if a} | {0} | (set(netref.path(cross["from"], cross["to"])) if cross else set()))
    # close under parent
    closed = set(nodes)
    for a in list(closed):
        while a:
            a = netref.parent(a)
            closed.add(a)
    slow = rng.random() < 0.3
    # non-default multicast configuration of individual nodes (seeded runs only): allow_multicast switched off (the node re-translates its
    # pipe 0 by re-assigning its address, as documented) and multicast_relay switched on - neither changes who owes a NETWORK_ACK
    xc = stream(seed, "mcfg")
    mc_off, mc_relay = [], []
    if i >= len(en):
        for a in sorted(closed):
            if xc.random() < 0.3 and not (mode == "multicast" and a == src):
                mc_off.append(a)
            elif xc.random() < 0.4:
                mc_relay.append(a)
    return {"seed": seed, "mc_off": mc_off, "mc_relay": mc_relay, "src": src, "dst": dst, "type": t, "len": rng.choice([0, 1, 8, 24]), "mode": mode,
            "nodes": [{"addr": a, "knobs": random_mcu_knobs(kr, stalls=False) if slow else {"spi_overhead_us": rng.choice([5, 20, 50]), "spi_jitter_us": 5,
                                                                                         "poll_us": rng.choice([100, 300, 1000]), "rate": 1.0 + rng.uniform(-0.02, 0.02),
                                                                                         "epoch_ns": rng.randrange(10**12)}} for a in sorted(closed)],
            "faults": faults, "fault_desc": faults_desc, "cross": cross, "late": late,
            "stale_from": rng.choice([None, None, 0o3, 0o21, 0o4444]) if i >= len(en) else None, "tx_timeout": rng.choice([5, 25, 25, 50, 150]),
            "route_timeout": rng.choice([15, 75, 75, 150, 450])}


def run(scn):
    res = Result()
    if scn.get("late"):
        scn = dict(scn, tx_timeout=150, route_timeout=450)
    w = World(scn["seed"], plan=scn.get("faults"), max_events=3_000_000, max_time=120_000 * MS)
    net = Net(w)
    try:
        _run(scn, w, net, res)
    except SimAbort:
        pass
    finally:
        res.absorb_world(w)
        w.close()
    return res


def node_rate(node):
    return 1.0


def _run(scn, w, net, res):
    sim = w.sim
    for nd in scn["nodes"]:
        def setup(node, nd=nd):
            node.tx_timeout = scn["tx_timeout"]
            node.route_timeout = scn["route_timeout"]
            if scn.get("cross") and scn["cross"].get("stream") and nd["addr"] == scn["src"]:
                node.ret_sys_msg = True
            if nd["addr"] in scn.get("mc_off", ()):
                node.allow_multicast = False
                node.node_address = nd["addr"]
                sim.count("node_with_multicast_off")
            if nd["addr"] in scn.get("mc_relay", ()):
                node.multicast_relay = True
                sim.count("node_with_multicast_relay")
            if (scn["seed"] + nd["addr"]) % 4 == 0:
                # history: the node is (re-)addressed after its timeouts were set (the timeouts are the application's, not the address's)
                node.node_address = nd["addr"]
                sim.count("readdressed_after_timeouts_were_set")
        kn = nd["knobs"]
        if scn.get("cross") and scn["cross"].get("stream"):
            # sender: a moderately slow MCU that wants to see system messages; the streaming child: a fast one
            if nd["addr"] == scn["src"]:
                kn = dict(kn, spi_overhead_us=400, spi_jitter_us=20)
            elif nd["addr"] == scn["cross"]["from"]:
                kn = dict(kn, spi_overhead_us=5, spi_jitter_us=2)
        if scn.get("cross") and scn["cross"].get("slow_sender") and nd["addr"] == scn["src"]:
            # a slow sender finds several frames in its RX FIFO in one pass (its own NETWORK_ACK and relayed ones)
            kn = dict(kn, spi_overhead_us=400, spi_jitter_us=100)
        net.add(nd["addr"], "net", nd["addr"], knobs=kn, setup=setup)
    if scn.get("cross") and scn["cross"].get("mute_ms") and scn["src"] in net.nodes:
        cr = scn["cross"]
        fired = []

        def on_store(pipe, data_):
            if not fired and len(data_) >= 8 and data_[6] == cr["type"] and (data_[0] | (data_[1] << 8)) == cr["from"]:
                fired.append(sim.now)
                w.air.mute.add("n%s" % scn["src"])
                sim.after(cr["mute_ms"] * MS, w.air.mute.discard, "n%s" % scn["src"])
                sim.count("fault:mute_on_relayed_frame")
        net.nodes[scn["src"]].radio.on_store = on_store
    net.start()
    sim.advance(3 * MS)
    src, dst, typ = scn["src"], scn["dst"], scn["type"]
    data = payload(scn["seed"], scn["len"])
    path = netref.path(src, dst)
    hops = len(path) - 1
    origin = net.nodes[src]
    a0 = len(w.air.trace)
    c0 = len(origin.radio.cycles)
    mode = scn.get("mode", "unicast")

    def do(node):
        from circuitpython_nrf24l01.network.structs import RF24NetworkHeader, RF24NetworkFrame
        if mode == "multicast":
            return node.multicast(data, typ, netref.level(dst))
        cr_ = scn.get("cross")
        if cr_ and cr_.get("busy_ms"):
            # the sender's application is busy for a moment right before it writes: the frame it has to pass on for its descendant is
            # already waiting in its radio when write() begins
            import circuitpython_nrf24l01.network.mixins as mx__
            mx__.time.sleep(cr_["busy_ms"] / 1000)
            sim.count("write_begins_with_a_frame_to_relay_waiting")
        hd = RF24NetworkHeader(dst if mode == "unicast" else path[1], typ)
        if scn.get("stale_from") is not None:
            hd.from_node = scn["stale_from"]     # a re-used frame object still carrying another node's address
        f = RF24NetworkFrame(hd, data)
        return node.write(f)
    late = scn.get("late")
    if late and hops > 1:
        # calibration message (fault-free) measures acceptance -> NETWORK_ACK round trip at the origin
        c_cal = net.call(src, "write", do, timeout=20_000 * MS)
        net.wait_quiet(quiet=20 * MS, timeout=3000 * MS)
        cal = [cy for cy in origin.radio.cycles[c0:] if len(cy["data"]) >= 8 and cy["data"][6] == typ and cy["result"] == "tx_ds"]
        arr = [t["t1"] for t in w.air.trace[a0:] if not t["ack"] and len(t["data"]) >= 8 and t["data"][6] == 193
               and (t["data"][2] | (t["data"][3] << 8)) == src and ("n%s" % src, "stored") in [tuple(x) for x in t["rx"]]]
        if c_cal.result is True and cal and arr:
            rtt = max(arr) - cal[0]["end"]
            margin_ms = (2 * origin.mcu.poll_ns + 5 * MS) // MS + 4
            scn["route_timeout"] = int(rtt // MS) + 1 + margin_ms + 3
            origin.node.route_timeout = scn["route_timeout"]
            w.air.mute.add("n%s" % src)                     # the origin's packets are lost for a while: first hop "absent"
            sim.after(late["outage_ms"] * MS + margin_ms * MS, w.air.mute.discard, "n%s" % src)
            sim.count("late_ack_calibrated")
        a0 = len(w.air.trace)
        c0 = len(origin.radio.cycles)
    cross = scn.get("cross")
    if cross and cross["from"] in net.nodes:
        def do2(node):
            from circuitpython_nrf24l01.network.structs import RF24NetworkHeader, RF24NetworkFrame
            if cross.get("stream"):
                import circuitpython_nrf24l01.network.mixins as mx_
                # keeps streaming until well after the sender's wait must have ended
                t_end = mx_.time.monotonic_ns() / node_rate(node) + (scn["tx_timeout"] + scn["route_timeout"] + 600) * 1_000_000
                n_ = 0
                while mx_.time.monotonic_ns() / node_rate(node) < t_end and n_ < 2000:
                    node.write(RF24NetworkFrame(RF24NetworkHeader(cross["to"], cross["type"]), bytes([n_ & 255]) * 8))
                    n_ += 1
                sim.count("system_frames_streamed_to_the_sender", n_)
                return True
            return node.write(RF24NetworkFrame(RF24NetworkHeader(cross["to"], cross["type"]), b"cross"))
        net.hold(cross["from"], cross["delay_ms"] * MS)
        c2 = net.post(cross["from"], "write", do2)
    c = net.call(src, "write", do, timeout=20_000 * MS)
    if cross and cross["from"] in net.nodes:
        net.wait(c2, timeout=20_000 * MS)
    if not c.done:
        res.add("bounded", {"kind": "write_did_not_return"}, "write() did not return within 20 s of virtual time")
        return
    if c.exc is not None:
        res.add("bounded", {"kind": "write_raised", "exc": type(c.exc).__name__}, "write() raised %r\n%s" % (c.exc, c.tb))
        return
    net.wait_quiet(quiet=(scn["route_timeout"] + scn["tx_timeout"] + 5) * MS, timeout=8000 * MS)
    net.shutdown()
    trace = w.air.trace[a0:]
    nacks = [t for t in trace if not t["ack"] and len(t["data"]) >= 8 and t["data"][6] == 193]
    ack_type = 64 < typ < 192
    expects = mode == "unicast" and hops > 1 and ack_type
    res.nontrivial = hops > 1 and mode == "unicast"
    sig = {"hops": min(hops, 3), "ack_type": ack_type, "fault": "+".join(sorted(f["kind"] for f in scn.get("fault_desc", []))) or "none", "mode": mode}
    # ---- never
    if not expects:
        if nacks:
            res.add("never", dict(sig, kind="unexpected_network_ack"),
                    "%d NETWORK_ACK packets on the air for a %s message of type %d over %d hop(s)" % (len(nacks), mode, typ, hops))
        if mode == "unicast":
            return _finish(scn, res, c, sig)
    if mode != "unicast":
        return _finish(scn, res, c, sig)
    # ---- ground truth at the origin
    # (the sender's own frame: type, destination and payload - a relayed cross-traffic frame may carry the same type)
    mine = [cy for cy in origin.radio.cycles[c0:] if len(cy["data"]) >= 8 and cy["data"][6] == typ and (cy["data"][2] | (cy["data"][3] << 8)) == dst
            and bytes(cy["data"][8:]) == bytes(data)]
    t_accept = next((cy["end"] for cy in mine if cy["result"] == "tx_ds"), None)
    stored = [t["t1"] for t in nacks if (t["data"][2] | (t["data"][3] << 8)) == src and ("n%s" % src, "stored") in [tuple(x) for x in t["rx"]]]
    poll = origin.mcu.poll_ns
    margin = 2 * poll + 5 * MS
    rt_ns = scn["route_timeout"] * MS
    if c.result is True:
        if t_accept is None:
            res.add("true_only_if", dict(sig, kind="true_without_first_hop"), "write() returned True but the first hop never completed with TX_DS")
        elif not any(t_accept <= t <= c.t1 for t in stored):
            res.add("true_only_if", dict(sig, kind="true_without_network_ack"),
                    "write() returned True at %d us; NETWORK_ACKs stored by the sender's radio at %r us, first hop accepted at %d us"
                    % (c.t1 // US, [t // US for t in stored], t_accept // US))
    elif c.result is False:
        if t_accept is not None and any(t <= t_accept + rt_ns - margin for t in stored):
            res.add("false_only_if", dict(sig, kind="false_despite_network_ack"),
                    "write() returned False although a NETWORK_ACK reached the sender's radio %d us after acceptance (route_timeout %d ms)"
                    % ((min(stored) - t_accept) // US, scn["route_timeout"]))
    else:
        res.add("true_only_if", dict(sig, kind="not_bool"), "write() returned %r" % (c.result,))
    # ---- bounded
    arc = origin.radio.r[4] & 0xF
    ard = ((origin.radio.r[4] >> 4) + 1) * 250 * US
    cyc = 130 * US + (1 + arc) * (ard + 500 * US)
    spi = origin.mcu.spi_overhead + origin.mcu.spi_jitter + 40 * origin.mcu.byte_ns
    bound = 2 * cyc + scn["tx_timeout"] * MS * 1.05 + rt_ns * 1.05 + 400 * spi + 10 * MS + ((cross or {}).get("busy_ms", 0) + 1) * MS * (1 if cross else 0)
    if c.t1 - c.t0 > bound:
        res.add("bounded", dict(sig, kind="too_long"), "write() took %d us, bound %d us (tx_timeout %d ms, route_timeout %d ms)"
                % ((c.t1 - c.t0) // US, bound // US, scn["tx_timeout"], scn["route_timeout"]))
    # ---- once: originations at the delivering router
    cross_route = set(netref.path(cross["from"], cross["to"])) if cross else set()
    if hops > 1:
        last = net.nodes[path[-2]]
        fw = [cy for cy in last.radio.cycles if len(cy["data"]) >= 8 and cy["data"][6] == typ and cy["data"][8:] == data]
        # a lost link-layer ACK upstream can make a hop forward the frame twice; the clause is per forwarded copy
        fw_uploads = {cy["upload_t"] for cy in fw}
        fw_ok = {cy["upload_t"] for cy in fw if cy["result"] == "tx_ds"}
        orig = {cy["upload_t"] for cy in last.radio.cycles if len(cy["data"]) >= 8 and cy["data"][6] == 193}
        others = {k: len({cy["upload_t"] for cy in nc.radio.cycles if len(cy["data"]) >= 8 and cy["data"][6] == 193})
                  for k, nc in net.nodes.items() if k not in path and k not in cross_route}
        wrong_to = [cy for cy in last.radio.cycles[len(last.radio.cycles) and 0:] if len(cy["data"]) >= 8 and cy["data"][6] == 193
                    and cy["start"] >= c.t0 and cy["data"][8:] == b"" and (cy["data"][2] | (cy["data"][3] << 8)) != src
                    and (cross is None or (cy["data"][2] | (cy["data"][3] << 8)) != cross["from"])]
        if wrong_to and path[-2] not in cross_route:
            res.add("once", dict(sig, kind="network_ack_to_wrong_node"), "the delivering node %o addressed its NETWORK_ACK to %o, the origin is %o"
                    % (path[-2], wrong_to[0]["data"][2] | (wrong_to[0]["data"][3] << 8), src))
        last_hop_linkack = any(f["kind"] == "linkack" and f.get("pos") == hops - 1 for f in scn.get("fault_desc", []))
        if len(orig) > max(1, len(fw_uploads)):
            res.add("once", dict(sig, kind="multiple_network_acks"),
                    "the delivering node %o originated %d NETWORK_ACKs for %d forwarded cop%s of the frame" % (path[-2], len(orig), len(fw_uploads), "y" if len(fw_uploads) == 1 else "ies"))
        elif len(orig) < len(fw_ok):
            res.add("once", dict(sig, kind="no_network_ack"), "the delivering node %o completed the last hop %d time(s) (TX_DS) but originated %d NETWORK_ACK(s)" % (path[-2], len(fw_ok), len(orig)))
        elif len(orig) > len(fw_ok) and not last_hop_linkack:
            res.add("once", dict(sig, kind="network_ack_without_delivery"), "node %o originated %d NETWORK_ACK(s) although only %d last-hop transmission(s) completed" % (path[-2], len(orig), len(fw_ok)))
        if any(others.values()):
            res.add("once", dict(sig, kind="network_ack_from_bystander"), "NETWORK_ACKs originated off the route: %r" % {oct(k): v for k, v in others.items() if v})
    _finish(scn, res, c, sig)


def _finish(scn, res, c, sig):
    res.sample = {"src": oct(scn["src"]), "dst": oct(scn["dst"]), "type": scn["type"], "mode": scn.get("mode"), "fault": scn.get("fault_desc"),
                  "tx_timeout": scn["tx_timeout"], "route_timeout": scn["route_timeout"], "result": repr(c.result)}


def same_class(a, b):
    return a.get("kind") == b.get("kind") and a.get("fault") == b.get("fault")
