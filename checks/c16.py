"""C16 - the mesh master leases each logical address to at most one node ID.

Real RF24Mesh master on its chip; a scripted injector radio delivers MESH_ADDR_REQUEST frames as they would arrive
directly (origin 0o4444) or relayed (origin rewritten to a node of level 1..3), and MESH_ADDR_RELEASE frames; the
harness calls update(), save_dhcp() and load_dhcp() (JSON and binary) on an in-memory file system, including
"a fresh master object loads the file" (MCU restart: only the file survives).  A listening radio at 0o1 (a real
RF24Network object whose application never runs) acknowledges the master's routed replies.

Invariants after every event (the reference is a set of invariants, not a copy of the allocator):
  injective   no two IDs map to the same address; one lease per ID
  lease       every address handed out is valid, a direct child of the via node (of the master for direct requests),
              not 0, not 0o4444, and not leased to another ID at that moment
  reply       the MESH_ADDR_RESPONSE on the air carries reserved = ID and the leased address in its body, and its first
              hop is toward the requester (reference routing)
  reuse       a released address is handed out again when it is the only free child of its parent
  persist     save -> (fresh object) load reproduces the table exactly in both formats; a load never breaks `injective`
"""
import struct

from nrfsim.core import SimAbort, stream, MS, US
from nrfsim.harness import Result
from nrfsim.mcu import World, Injector
from checks import netref
from circuitpython_nrf24l01.rf24_mesh import RF24Mesh
from circuitpython_nrf24l01.rf24_network import RF24Network

PROP = "C16"
LEVEL = "exploration"
VIAS = [0o4444, 0o1, 0o21]
SYMS = ([["req", i, v] for i in (1, 2) for v in range(3)] + [["release", 1], ["release", 2], ["save", "json"], ["save", "bin"],
        ["load", "json"], ["load", "bin"], ["restart", "json"], ["restart", "bin"]])
RULE = ("small-scope sweep: all event sequences to length 3 (quick) / 5 (thorough) over a 14-symbol alphabet {request(id in {1,2}, via "
        "in {direct, 0o1, 0o21}), release(id), save json|bin, load json|bin, restart+load json|bin}; seeded sequences of length 4..8 over the same alphabet; seeded histories to length 30 "
        "with IDs 1..255, vias of level 0..3 and repeated requests that fill parents completely; requests whose origin is no logical address, leases expired through the master's release_address(address), idle update() calls (the table stays as it is, nothing is transmitted), pairs of requests in flight at once (the second arrives 0..150 ms after the first, "
        "i.e. also while the master waits for the NETWORK_ACK of a routed reply); tables of 0..255 random entries saved and re-loaded by a fresh object in both formats. Non-trivial: at least one lease "
        "was granted; distinct = distinct event sequences")
ASSUMPTIONS = ["requests are injected as frames on the master's pipes (a relayed request = origin rewritten to the via node)",
               "no crash consistency of the file is claimed: exact round trip only"]
CLAUSES = {"injective": "never maps two node IDs to the same address; an ID that asks again keeps a single lease",
           "lease": "valid direct child of the via node, never 0, never 0o4444, never leased to another ID (also: never an address another ID was told in a reply and still holds)", "reply": "reply travels back toward the requester carrying its ID",
           "reuse": "a released address becomes available again", "persist": "save_dhcp()/load_dhcp() reproduce the table exactly in both file formats"}
PROBES = ["request_pair", "events_that_leave_the_table_alone"]
SHRINK_KEYS = ("events",)
CHUNK = 150


def _nseq(d):
    return sum(len(SYMS) ** k for k in range(1, d + 1))


def count(tier):
    return _nseq(3) + 10000 if tier == "quick" else _nseq(5) + 60000


def exhaustive(tier):
    return False


def make(i, base_seed, tier):
    seed = base_seed * 1_000_003 + i
    rng = stream(seed, "work")
    n = _nseq(3 if tier == "quick" else 5)
    if i < n:
        k = len(SYMS)
        d = 1
        j = i
        while j >= k ** d:
            j -= k ** d
            d += 1
        ev = []
        for _ in range(d):
            s = SYMS[j % k]
            j //= k
            ev.append(["req", s[1], VIAS[s[2]]] if s[0] == "req" else list(s))
        return {"seed": seed, "events": ev, "kind": "bfs"}
    if rng.random() < 0.06:
        # persistence of arbitrary table contents: 0..255 entries set through the public set_address()
        return {"seed": seed, "events": [["fill", rng.choice([0, 1, 2, 17, 100, 254, 255, rng.randint(0, 255)])], ["save", "json"], ["save", "bin"],
                                         ["restart", rng.choice(["json", "bin"])], ["restart", rng.choice(["json", "bin"])]], "kind": "persist"}
    if rng.random() < 0.75:
        # seeded sequences over the small alphabet, longer than the sweep reaches
        ev = []
        xr = stream(seed, "ext")
        for _ in range(rng.randint(4, 8)):
            s = rng.choice(SYMS)
            ev.append(["req", s[1], VIAS[s[2]]] if s[0] == "req" else list(s))
            if xr.random() < 0.15:
                ev.append(_pair(xr, [1, 2, 3]))
            if xr.random() < 0.2:
                ev.append(_extra(xr, [1, 2, 3]))
        return {"seed": seed, "events": ev, "kind": "small_random"}
    ids = rng.sample(range(1, 256), rng.randint(2, 12))
    vias = [0o4444, 0o4444, 0o1, 0o2, 0o21, 0o321, 0o5, 0o15, 0o44, 0o444, 0o4, 0o344]
    ev = []
    xr = stream(seed, "ext")
    for _ in range(rng.randint(5, 30)):
        k = rng.random()
        if xr.random() < 0.1:
            ev.append(_pair(xr, ids))
        if xr.random() < 0.12:
            ev.append(_extra(xr, ids))
        if k < 0.6:
            ev.append(["req", rng.choice(ids), rng.choice(vias[:rng.choice([2, 4, 8, 12])])])
        elif k < 0.75:
            ev.append(["release", rng.choice(ids)])
        else:
            ev.append([rng.choice(["save", "load", "restart"]), rng.choice(["json", "bin"])])
    return {"seed": seed, "events": ev, "kind": "random"}


def _pair(xr, ids):
    """two requests in flight at once: the second arrives while the master handles the first - for a first request relayed
    through a node below 0o1 that is while the master listens for the NETWORK_ACK of its routed reply"""
    a, b_ = xr.sample(list(ids), 2) if len(ids) > 1 else (ids[0], ids[0])
    gap = xr.choice([0, 300, 1500]) if xr.random() < 0.2 else xr.randint(2000, 150000)     # (two waits of route_timeout = 75 ms each: first reply and its repeat)
    return ["pair", a, xr.choice([0o21, 0o21, 0o11, 0o321, 0o31, 0o4444, 0o1]), b_, xr.choice([0o4444, 0o4444, 0o1, 0o21, 0o2, 0o321]), gap]


def _extra(xr, ids):
    """events that must leave the table alone (or change it in one documented way): a request whose origin is no logical address, a lease
    expired through the master's own release_address(address), an update() with nothing received"""
    k = xr.random()
    if k < 0.4:
        return ["badreq", xr.choice(list(ids)), xr.choice([0o4440, 0o6, 0o70, 0o11111, 0o7777, 0o60001 & 0xFFFF])]
    if k < 0.7:
        return ["apirelease", xr.choice(list(ids))]
    return ["idle", xr.randint(1, 3)]


def run(scn):
    res = Result()
    w = World(scn["seed"], max_events=3_000_000, max_time=600_000 * MS)
    try:
        _run(scn, w, res)
    except SimAbort:
        pass
    finally:
        res.absorb_world(w)
        w.close()
    return res


def _inv(res, table, where):
    seen = {}
    for i, a in table.items():
        if a in seen:
            res.add("injective", {"kind": "two_ids_one_address", "after": where}, "IDs %d and %d both hold %o after %s: %r" % (seen[a], i, a, where, {k: oct(v) for k, v in table.items()}))
            return False
        seen[a] = i
    return True


def _told(res, w, a0, told, table, where):
    """every MESH_ADDR_RESPONSE the master transmitted is a hand-out: the address must not be one another ID was told (and
    has not released), and the table must book exactly that address to exactly that ID"""
    for t in w.air.trace[a0:]:
        if t["src"] != "M" or t["ack"] or len(t["data"]) < 10 or t["data"][6] != 128:
            continue
        _, _, _, _, nid = netref.unpack_header(t["data"])
        addr = struct.unpack("<H", t["data"][8:10])[0]
        for other, a in told.items():
            if other != nid and a == addr and table.get(other) == a:
                res.add("lease", {"kind": "handed_out_twice"}, "%s: id %d was told %o, which id %d was told before and still holds" % (where, nid, addr, other))
                return False
        told[nid] = addr
    for t in w.air.trace[a0:]:
        if t["src"] != "M" or t["ack"] or len(t["data"]) < 10 or t["data"][6] != 128:
            continue
        _, _, _, _, nid = netref.unpack_header(t["data"])
        if table.get(nid) != told.get(nid):
            res.add("reply", {"kind": "told_not_booked"}, "%s: id %d was told %o but the table books %s to it (table %r)"
                    % (where, nid, told[nid], oct(table[nid]) if nid in table else "nothing", {k: oct(v) for k, v in table.items()}))
            return False
    return True


def rng_pipe(origin):
    """pipe on which a frame from this (possibly invalid) origin would reach the master"""
    d = origin & 7
    return d if 1 <= d <= 5 else 0


def _run(scn, w, res):
    sim = w.sim
    rm = w.radio("M")
    bus = w.bus(rm)
    master = RF24Mesh(*bus, 0)
    rl = w.radio("L1")
    RF24Network(*w.bus(rl), 0o1)      # acknowledging listener; its application never runs
    inj = Injector(w, "INJ", channel=rm.r[5], rate=1, aw=5, crc=2, esb=True, dpl=True)
    inj2 = Injector(w, "INJ2", channel=rm.r[5], rate=1, aw=5, crc=2, esb=True, dpl=True)
    mcu2 = w.make_mcu("I2")
    told = {}       # id -> address in the latest MESH_ADDR_RESPONSE transmitted for it (dropped on release / load)
    saved = {}      # fmt -> table at save time
    ever_leased = set()
    granted = 0
    fid = 100
    names = []
    for ev in scn["events"]:
        names.append(ev[0])
        sim.log("event", "M", *ev)
        before = dict(master.dhcp_dict)
        if ev[0] == "req":
            _, nid, via = ev
            fid += 1
            frame = netref.pack_header(via, 0, fid, 195, nid)
            a0 = len(w.air.trace)
            rl.rx_fifo.clear()
            inj.send(rm.pipe_addr(netref.child_pipe(via & 7) if via != 0o4444 else 0), frame, want_ack=False)
            try:
                for _ in range(3):
                    master.update()
                    if not rm.rx_fifo:
                        break
            except SimAbort:
                raise
            except Exception as e:
                res.add("lease", {"kind": "update_raised", "exc": type(e).__name__}, "update() raised %r while handling request id %d via %o" % (e, nid, via))
                return
            rl.rx_fifo.clear()
            table = dict(master.dhcp_dict)
            if not _inv(res, table, "request(id %d via %o)" % (nid, via)):
                return
            others_now = {k: v for k, v in table.items() if k != nid}
            others_before = {k: v for k, v in before.items() if k != nid}
            if others_now != others_before:
                res.add("injective", {"kind": "foreign_lease_changed", "after": "request"}, "request(id %d via %o) changed other IDs' leases: %r -> %r"
                        % (nid, via, {k: oct(v) for k, v in others_before.items()}, {k: oct(v) for k, v in others_now.items()}))
                return
            new = table.get(nid)
            if new is not None:
                ever_leased.add(new)
            parent_of = 0 if via == 0o4444 else via
            children = [parent_of | (d << (3 * netref.level(parent_of))) for d in range(1, 6)]
            # only addresses the master has handed out before are known to be allocatable (it keeps child 5 of relays in reserve)
            free_before = [c for c in children if c in ever_leased and c not in [a for k, a in before.items() if k != nid] and c != 0o4444]
            if new is not None and (nid not in before or before[nid] != new or True):
                # the lease now in force for this id (granted or confirmed by this request)
                if new != before.get(nid) or nid not in before:
                    granted += 1
                bad = None
                if not netref.valid_addr_doc(new) or new in (0, 0o4444):
                    bad = "invalid address"
                elif netref.level(new) > 4:
                    bad = "too deep"
                if bad is None and (new != before.get(nid)) and netref.parent(new) != parent_of:
                    bad = "not a direct child of the via node %o" % parent_of
                if bad:
                    res.add("lease", {"kind": bad.split(" %")[0].split(" 0o")[0]}, "request(id %d via %o) was leased %o: %s" % (nid, via, new, bad))
                    return
            if not _told(res, w, a0, told, table, "request(id %d via %o)" % (nid, via)):
                return
            # ---- reply on the air
            resp = [t for t in w.air.trace[a0:] if t["src"] == "M" and not t["ack"] and len(t["data"]) >= 8 and t["data"][6] == 128]
            changed = table != before or (nid in table)
            if resp:
                t = resp[0]
                frm, to, _, typ, reserved = netref.unpack_header(t["data"])
                body = t["data"][8:10]
                leased = table.get(nid)
                want_addr = netref.pipe_address(0o4444, 0) if via == 0o4444 else netref.pipe_address(via & 7, 5)
                if reserved != nid or leased is None or body != struct.pack("<H", leased) or to != via:
                    res.add("reply", {"kind": "reply_content"}, "reply to request(id %d via %o): to %o reserved %d body %s; table says %r" % (nid, via, to, reserved, body.hex(), oct(leased) if leased is not None else None))
                    return
                if t["addr"] != want_addr:
                    res.add("reply", {"kind": "reply_first_hop"}, "reply for via %o was transmitted to %s, first hop toward the requester is %s" % (via, t["addr"].hex(), want_addr.hex()))
                    return
            elif nid in table and (nid not in before or free_before):
                if table.get(nid) != before.get(nid) or nid not in before:
                    res.add("reply", {"kind": "no_reply"}, "request(id %d via %o) changed the table to %r but no MESH_ADDR_RESPONSE was transmitted" % (nid, via, {k: oct(v) for k, v in table.items()}))
                    return
            # ---- reuse: exactly one free child and the id holds no lease under this parent -> it must get that child
            if nid not in before and len(free_before) >= 1 and new is None:
                res.add("reuse", {"kind": "free_child_not_leased", "free": min(len(free_before), 2)},
                        "request(id %d via %o): children %r are free but no lease was granted (table %r)" % (nid, via, [oct(c) for c in free_before], {k: oct(v) for k, v in before.items()}))
                return
        elif ev[0] == "pair":
            _, id1, via1, id2, via2, gap = ev
            fid += 2
            f1 = netref.pack_header(via1, 0, fid - 1, 195, id1)
            f2 = netref.pack_header(via2, 0, fid, 195, id2)
            a0 = len(w.air.trace)
            rl.rx_fifo.clear()

            def second():
                sim.advance(gap * US)
                inj2.send(rm.pipe_addr(netref.child_pipe(via2 & 7) if via2 != 0o4444 else 0), f2, want_ack=False, settle=False)
            t2 = sim.spawn("inj2", second, mcu2)
            inj.send(rm.pipe_addr(netref.child_pipe(via1 & 7) if via1 != 0o4444 else 0), f1, want_ack=False, settle=False)
            try:
                for k in range(40):
                    master.update()
                    rl.rx_fifo.clear()
                    if t2.done and not rm.rx_fifo and k >= 3:
                        break
                    if not t2.done:
                        sim.advance(2 * MS)
                sim.join([t2], timeout=500 * MS)
                for _ in range(3):
                    master.update()
            except SimAbort:
                raise
            except Exception as e:
                res.add("lease", {"kind": "update_raised", "exc": type(e).__name__}, "update() raised %r while handling requests id %d via %o / id %d via %o" % (e, id1, via1, id2, via2))
                return
            rl.rx_fifo.clear()
            sim.count("request_pair")
            table = dict(master.dhcp_dict)
            where = "requests (id %d via %o) and, %d us later, (id %d via %o)" % (id1, via1, gap, id2, via2)
            if not _inv(res, table, where):
                return
            others_now = {k: v for k, v in table.items() if k not in (id1, id2)}
            others_before = {k: v for k, v in before.items() if k not in (id1, id2)}
            if others_now != others_before:
                res.add("injective", {"kind": "foreign_lease_changed", "after": "request"}, "%s changed other IDs' leases: %r -> %r"
                        % (where, {k: oct(v) for k, v in others_before.items()}, {k: oct(v) for k, v in others_now.items()}))
                return
            for nid, via in ((id1, via1), (id2, via2)):
                new = table.get(nid)
                if new is None:
                    continue
                if new != before.get(nid):
                    granted += 1
                    # which of two requests of ONE id (via different nodes) won is not prescribed; a child of either is fine
                    okp = {0 if v == 0o4444 else v for (i_, v) in ((id1, via1), (id2, via2)) if i_ == nid}
                    if not netref.valid_addr_doc(new) or new in (0, 0o4444) or netref.parent(new) not in okp:
                        res.add("lease", {"kind": "invalid address" if (not netref.valid_addr_doc(new) or new in (0, 0o4444)) else "not a direct child of the via node"},
                                "%s: id %d was leased %o" % (where, nid, new))
                        return
                ever_leased.add(new)
            if not _told(res, w, a0, told, table, where):
                return
        elif ev[0] in ("badreq", "idle", "apirelease"):
            a0 = len(w.air.trace)
            want = dict(before)
            what = "%s %r" % (ev[0], ev[1:])
            try:
                if ev[0] == "badreq":
                    fid += 1
                    rl.rx_fifo.clear()
                    inj.send(rm.pipe_addr(rng_pipe(ev[2])), netref.pack_header(ev[2], 0, fid, 195, ev[1]), want_ack=False)
                    for _ in range(3):
                        master.update()
                elif ev[0] == "idle":
                    for _ in range(ev[1]):
                        master.update()
                else:
                    nid = ev[1]
                    if nid in master.dhcp_dict:
                        addr_ = master.dhcp_dict[nid]
                        ok_ = master.release_address(addr_)
                        want.pop(nid, None)
                        told.pop(nid, None)
                        if ok_ is not True:
                            res.add("reuse", {"kind": "api_release_result"}, "release_address(%o) returned %r for a leased address" % (addr_, ok_))
                            return
                    for _ in range(2):
                        master.update()
            except SimAbort:
                raise
            except Exception as e:
                res.add("lease", {"kind": "update_raised", "exc": type(e).__name__}, "%s raised %r" % (what, e))
                return
            rl.rx_fifo.clear()
            sim.count("events_that_leave_the_table_alone")
            if dict(master.dhcp_dict) != want:
                res.add("injective", {"kind": "table_changed_without_request", "after": ev[0]}, "%s turned the table %r into %r"
                        % (what, {k: oct(v) for k, v in before.items()}, {k: oct(v) for k, v in master.dhcp_dict.items()}))
                return
            sent = [t for t in w.air.trace[a0:] if t["src"] == "M" and not t["ack"] and len(t["data"]) >= 8 and t["data"][6] == 128]
            if sent:
                res.add("reply", {"kind": "reply_without_request", "after": ev[0]}, "%s made the master transmit a MESH_ADDR_RESPONSE (%s)" % (what, sent[0]["data"][:10].hex()))
                return
        elif ev[0] == "fill":
            frng = stream(scn["seed"], "fill")
            addrs = frng.sample([a for a in netref.all_addresses() if a], ev[1])
            ids = frng.sample(range(1, 256), ev[1])
            for i_, a_ in zip(ids, addrs):
                master.set_address(i_, a_)
            granted += ev[1]
            if dict(master.dhcp_dict) != dict(zip(ids, addrs)):
                res.add("persist", {"kind": "set_address"}, "set_address() of %d distinct pairs left %d entries" % (ev[1], len(master.dhcp_dict)))
                return
        elif ev[0] == "release":
            nid = ev[1]
            if nid not in master.dhcp_dict:
                continue
            addr = master.dhcp_dict[nid]
            fid += 1
            # (with static payload lengths every frame arrives zero-padded: a release may carry bytes after its header)
            frame = netref.pack_header(addr, 0, fid, 197, 0) + bytes((0, 0, 2, 24)[(scn["seed"] + fid) % 4])
            if len(frame) > 8:
                sim.count("release_with_padding")
            rl.rx_fifo.clear()
            inj.send(rm.pipe_addr(netref.child_pipe(addr & 7)), frame, want_ack=False)
            try:
                for _ in range(3):
                    master.update()
                    if not rm.rx_fifo:
                        break
            except SimAbort:
                raise
            except Exception as e:
                res.add("reuse", {"kind": "update_raised", "exc": type(e).__name__}, "update() raised %r while handling a release from %o" % (e, addr))
                return
            told.pop(nid, None)
            if master.dhcp_dict.get(nid) == addr:
                res.add("reuse", {"kind": "release_ignored"}, "MESH_ADDR_RELEASE from %o did not free the lease of id %d" % (addr, nid))
                return
            if not _inv(res, dict(master.dhcp_dict), "release"):
                return
            want = {k: v for k, v in before.items() if k != nid}
            if dict(master.dhcp_dict) != want:
                res.add("injective", {"kind": "foreign_lease_changed", "after": "release"}, "a MESH_ADDR_RELEASE from %o (id %d) turned the table %r into %r"
                        % (addr, nid, {k: oct(v) for k, v in before.items()}, {k: oct(v) for k, v in master.dhcp_dict.items()}))
                return
        elif ev[0] == "save":
            fmt = ev[1]
            try:
                master.save_dhcp("t." + fmt, as_bin=fmt == "bin")
            except SimAbort:
                raise
            except Exception as e:
                res.add("persist", {"kind": "save_raised", "fmt": fmt, "exc": type(e).__name__}, "save_dhcp(%s) of a table of %d entries raised %r" % (fmt, len(master.dhcp_dict), e))
                return
            saved[fmt] = dict(master.dhcp_dict)
        elif ev[0] in ("load", "restart"):
            fmt = ev[1]
            if fmt not in saved:
                continue
            told.clear()    # the table is replaced wholesale: what nodes were told before is void
            try:
                if ev[0] == "restart":
                    master = RF24Mesh(*bus, 0)     # MCU restart: a fresh object on the same radio; only the file survives
                master.load_dhcp("t." + fmt, as_bin=fmt == "bin")
            except SimAbort:
                raise
            except Exception as e:
                res.add("persist", {"kind": "load_raised", "fmt": fmt, "exc": type(e).__name__}, "load_dhcp(%s) of a table of %d entries saved before raised %r" % (fmt, len(saved[fmt]), e))
                return
            if ev[0] == "restart":
                if dict(master.dhcp_dict) != saved[fmt]:
                    res.add("persist", {"kind": "round_trip", "fmt": fmt}, "saved %r, a fresh master loaded %r (%s)" % ({k: oct(v) for k, v in saved[fmt].items()}, {k: oct(v) for k, v in master.dhcp_dict.items()}, fmt))
                    return
            else:
                if not _inv(res, dict(master.dhcp_dict), "load(%s) into a live table" % fmt):
                    return
            bad_keys = [k for k in master.dhcp_dict if not isinstance(k, int)]
            if bad_keys:
                res.add("persist", {"kind": "key_type", "fmt": fmt}, "table keys %r are not ints after load" % bad_keys)
                return
    res.nontrivial = granted > 0
    import hashlib
    res.isig = hashlib.blake2b(repr(scn["events"]).encode(), digest_size=8).hexdigest()
    res.sample = {"events": scn["events"][:8], "table": {k: oct(v) for k, v in master.dhcp_dict.items()}}


def same_class(a, b):
    return (a.get("kind"), a.get("after", "")[:4], a.get("fmt")) == (b.get("kind"), b.get("after", "")[:4], b.get("fmt"))
