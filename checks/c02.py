"""C02 - send()/resend() report the true fate of the payload and always terminate.

Ground truth is the chip model's record of every transmit cycle (start, attempts, TX_DS or
MAX_RT, ACK payload) and the sniffer trace; the harness brackets every API call.

Clauses:
  truth      return value truthy <=> the last cycle run for the payload ended in TX_DS; False <=> every
             automatic and forced retry went unacknowledged (all 1+force_retry cycles ran and failed);
             the call never returns while the radio is still transmitting the payload
  ackpl      ACK payloads on, send_only off: the return value is the ACK payload the radio received in
             that cycle (True for an empty ACK); received payloads follow the peer's load order;
             send_only on: True, and the ACK payload stays in the RX FIFO
  list       list/tuple input => list of per-payload results in order
  bounded    virtual time call->return <= cycles * (settle + (1+arc)(air + ARD)) + slack; event cap never hit
  isolation  packets on the air during a call carry that call's payload(s) only; resend() re-transmits exactly
             the failed payload (same bytes, same PID) and returns False with no air activity when none failed
"""
from nrfsim.core import SimAbort, stream, MS, US
from nrfsim.harness import Result
from nrfsim.mcu import World, random_mcu_knobs
from checks import common
from checks.common import hx, unhx

PROP = "C02"
LEVEL = "fault_enumeration"
RULE = ("fate vectors: every attempt of a payload is delivered+ACKed / packet lost / ACK lost; enumerated completely "
        "for arc<=2 (quick) or arc<=3 (thorough) with force_retry<=1 (all 2^(T+1)-1 prefixes-of-failures vectors over "
        "T=(1+arc)(1+force_retry) attempts), plus for every arc 0..15 'first success at attempt k' and 'all fail'; beyond "
        "that seeded histories of up to 6 send/send(list)/resend calls (with the streaming idiom - write(write_only=True) until the FIFO refuses, CE by hand - in between: a filled FIFO before send(), a burst whose head failed before resend()) with seeded loss ordinals, blackouts, context re-entry (power down/up between calls), targeted stale-ACK-payload histories, bus speeds up to 1.5 ms per transaction, peer "
        "deaf/absent/full, ACK payloads, ask_no_ack, auto-ack off, every ard and data rate. Non-trivial: at least one "
        "transmit cycle ran; distinct = distinct abstract event sequences")
ASSUMPTIONS = ["chip/air model decisions M1 (STATUS is clocked out before a command takes effect), M2, M3, M4, M6, M7, M9",
               "PTX entered TX mode with listen=False (the property's precondition)"]
CLAUSES = {"truth": "True iff completed, False iff every retry unacknowledged", "ackpl": "ACK payload returned instead of True",
           "list": "one result per payload in order", "bounded": "returns within the time bounded by the retry configuration",
           "isolation": "a failed payload never leaks into later calls; resend() sends exactly the failed payload"}
PROBES = ["max_rt", "pid_duplicate_dropped"]
SHRINK_KEYS = ("ops", "faults")
CHUNK = 60

_ENUM_CACHE = {}


def _vectors(total):
    """All fate vectors: k failures (each P or A) then success, k < total; or `total` failures."""
    out = []
    for k in range(total + 1):
        for m in range(1 << k):
            v = ["A" if (m >> j) & 1 else "P" for j in range(k)]
            if k < total:
                v.append("O")
            out.append(v)
    return out


def _enum(tier):
    if tier in _ENUM_CACHE:
        return _ENUM_CACHE[tier]
    cases = []
    max_arc = 2 if tier == "quick" else 3
    for arc in range(max_arc + 1):
        for fr in (0, 1):
            for v in _vectors((1 + arc) * (1 + fr)):
                cases.append((arc, fr, v))
    for arc in range(16):
        for fr in ((0,) if tier == "quick" else (0, 1, 2, 3)):
            total = (1 + arc) * (1 + fr)
            for k in range(total + 1):
                for f in "PA":
                    v = [f] * k + (["O"] if k < total else [])
                    cases.append((arc, fr, v))
    _ENUM_CACHE[tier] = cases
    return cases


def count(tier):
    return len(_enum(tier)) + (3000 if tier == "quick" else 60000)


def exhaustive(tier):
    return False


def fate_rules(vec):
    rules, acks = [], 0
    for i, f in enumerate(vec):
        if f == "P":
            rules.append({"src": "T", "ack": False, "nth": i})
        elif f == "A":
            rules.append({"src": "R", "ack": True, "nth": acks})
            acks += 1
        else:
            acks += 1
    return rules


def make(i, base_seed, tier, lite_tx=False, lite_rx=False):
    seed = base_seed * 1_000_003 + i
    rng = stream(seed, "work")
    kr = stream(seed, "knobs")
    cfg = common.rand_link_cfg(rng, lite_tx=lite_tx, lite_rx=lite_rx)
    cfg.update({"auto_ack": True, "crc": max(1, cfg["crc"]), "dyn": True, "allow_ask_no_ack": True})
    cases = _enum(tier)
    scn = {"seed": seed, "cfg": cfg, "mode": "auto", "peer": "listening",
           "tx_knobs": random_mcu_knobs(kr, stalls=False)}
    if i < len(cases):
        arc, fr, vec = cases[i]
        cfg["rate"] = rng.choice([1, 2, 250])
        scn.update({"arc": arc, "ard": rng.choice([500, 750, 1500, 4000]) if cfg["rate"] != 250 else rng.choice([750, 1500, 4000]),
                    "ops": [{"op": "send", "buf": hx(common.rand_payload(rng, rng.randint(1, 32))), "fr": fr, "so": False, "na": False}],
                    "faults": fate_rules(vec), "vec": "".join(vec)})
        if rng.random() < 0.3:
            scn["ops"].append({"op": "resend", "so": False})
        if rng.random() < 0.3:
            scn["ops"].append({"op": "send", "buf": hx(common.rand_payload(rng, rng.randint(1, 32))), "fr": 0, "so": False, "na": False})
        return scn
    # ---- seeded histories
    mode = rng.choice(["auto", "auto", "ackpl", "ackpl", "noack", "aa_off"])
    if (lite_tx or lite_rx) and mode == "aa_off":
        mode = "auto"
    scn["mode"] = mode
    scn["peer"] = rng.choice(["listening"] * 6 + ["deaf", "absent", "full"])
    scn["arc"] = rng.choice([0, 1, 2, 3, 5, 15, rng.randint(0, 15)])
    scn["ard"] = rng.choice([250, 500, 750, 1500, 4000, 250 * rng.randint(1, 16)])
    if mode == "aa_off":
        cfg["auto_ack"] = False
    ops = []
    if mode == "ackpl" and scn["peer"] == "listening":
        ops.append({"op": "peer", "do": "load_ack", "bufs": [hx(common.rand_payload(rng, rng.randint(1, 32))) for _ in range(rng.randint(0, 3))]})
    for _ in range(rng.randint(1, 6)):
        k = rng.random()
        if k < 0.55:
            ops.append({"op": "send", "buf": hx(common.rand_payload(rng, rng.randint(1, 32))), "fr": rng.choice([0, 0, 1, 2, 3]),
                        "so": rng.random() < 0.3, "na": (mode == "noack" and rng.random() < 0.7) or (mode == "ackpl" and rng.random() < 0.25)})
        elif k < 0.7:
            ops.append({"op": "sendlist", "bufs": [hx(common.rand_payload(rng, rng.randint(1, 32))) for _ in range(rng.randint(1, 3))],
                        "fr": rng.choice([0, 0, 1]), "so": rng.random() < 0.3, "na": mode == "noack" and rng.random() < 0.7,
                        "tuple": rng.random() < 0.5})
        elif k < 0.9:
            ops.append({"op": "resend", "so": rng.random() < 0.3})
        if rng.random() < 0.25:
            # a call (or two) that meets a complete blackout, then the medium heals
            ops.append({"op": "blackout", "on": True})
            for _ in range(rng.randint(1, 2)):
                ops.append({"op": "send", "buf": hx(common.rand_payload(rng, rng.randint(1, 32))), "fr": rng.choice([0, 0, 1]),
                            "so": rng.random() < 0.3, "na": False})
            ops.append({"op": "blackout", "on": False})
        else:
            if mode == "ackpl":
                ops.append({"op": "peer", "do": "load_ack", "bufs": [hx(common.rand_payload(rng, rng.randint(1, 32))) for _ in range(rng.randint(1, 2))]})
            else:
                ops.append({"op": "peer", "do": rng.choice(["listen_off", "listen_on", "drain"])})
        if rng.random() < 0.3:
            ops.append({"op": "peer", "do": "drain"})
        if mode == "ackpl" and rng.random() < 0.3:
            ops.append({"op": "tx_drain"})
    xr = stream(seed, "ext")
    if xr.random() < 0.06:
        # targeted history (state carried across calls): an ACK payload left unread by send(send_only=True), then a send that fails
        # completely, then - the medium healed, the peer armed with a fresh ACK payload - resend()/send() that is acknowledged;
        # half of these on a very slow bus, so that the order of the driver's transactions relative to the radio's activity matters
        scn["mode"] = mode = "ackpl"
        cfg["auto_ack"] = True
        scn["peer"] = "listening"
        scn["arc"] = xr.choice([0, 1, 3])
        pl = lambda: hx(common.rand_payload(xr, xr.randint(1, 32)))
        ops = [{"op": "peer", "do": "load_ack", "bufs": [pl() for _ in range(xr.randint(1, 3))]},
               {"op": "send", "buf": pl(), "fr": 0, "so": True, "na": False},
               {"op": "blackout", "on": True},
               {"op": "send", "buf": pl(), "fr": xr.choice([0, 0, 1]), "so": True, "na": False},
               {"op": "blackout", "on": False},
               {"op": "peer", "do": "load_ack", "bufs": [pl() for _ in range(xr.randint(1, 2))]},
               xr.choice([{"op": "resend", "so": False}, {"op": "resend", "so": False}, {"op": "send", "buf": pl(), "fr": 0, "so": False, "na": False}]),
               {"op": "resend", "so": xr.random() < 0.5}]
        if xr.random() < 0.5:
            scn["tx_knobs"] = dict(scn["tx_knobs"], spi_overhead_us=xr.choice([800, 1500]), spi_jitter_us=xr.choice([0, 200]))
        scn["ops"] = ops
        scn["faults"] = []
        return scn
    if not (lite_tx or lite_rx) and xr.random() < 0.2:
        # the application leaves and re-enters the radio's context between calls (power saving / a radio shared between objects)
        for k_ in sorted(xr.sample(range(len(ops) + 1), min(len(ops) + 1, xr.randint(1, 2))), reverse=True):
            if k_ and ops[k_ - 1]["op"] == "blackout" and ops[k_ - 1]["on"]:
                continue
            ops.insert(k_, {"op": "reenter"})
    if xr.random() < 0.2:
        # role excursions between calls: the transmitter listens for a while and comes back (only pipes 1-5 / nothing open for RX)
        for k_ in sorted(xr.sample(range(len(ops) + 1), min(len(ops) + 1, xr.randint(1, 2))), reverse=True):
            if k_ and ops[k_ - 1]["op"] == "blackout" and ops[k_ - 1]["on"]:
                continue
            ops.insert(k_, {"op": "listen_excursion", "rx1": xr.random() < 0.5})
    if not (lite_tx or lite_rx) and mode in ("auto", "ackpl") and scn["peer"] == "listening" and xr.random() < 0.2:
        # the documented streaming idiom between send() calls (examples/nrf24l01_stream_test.py): write(write_only=True) until the
        # TX FIFO refuses, CE raised by hand.  (fill_send) the application gives the burst up and calls send(): only send()'s own
        # payload goes out, and it is reported truthfully;  (burst_resend) the burst meets an outage, its first payload ends in
        # MAX_RT, the medium heals and resend() must re-transmit exactly that payload
        pl = lambda: hx(common.rand_payload(xr, xr.randint(1, 32)))
        k_ = xr.randrange(len(ops) + 1)
        while k_ and ops[k_ - 1]["op"] == "blackout" and ops[k_ - 1]["on"]:
            k_ -= 1
        if xr.random() < 0.5:
            ops[k_:k_] = [{"op": "fill", "bufs": [pl() for _ in range(4)]},
                          {"op": "send", "buf": pl(), "fr": xr.choice([0, 0, 1]), "so": xr.random() < 0.3, "na": False}]
        else:
            ops[k_:k_] = [{"op": "burst_resend", "bufs": [pl() for _ in range(xr.choice([1, 2, 3, 3]))], "so": xr.random() < 0.3}]
    if not (lite_tx or lite_rx) and mode == "ackpl" and xr.random() < 0.15:
        # role excursion of a transmitter that also *receives on pipe 0*: it arms an ACK payload while listening, nobody collects it,
        # it comes back to TX mode, names its target again and sends - only the payload of that send() may go out
        pl = lambda: hx(common.rand_payload(xr, xr.randint(1, 32)))
        k_ = xr.randrange(len(ops) + 1)
        while k_ and ops[k_ - 1]["op"] == "blackout" and ops[k_ - 1]["on"]:
            k_ -= 1
        ops[k_:k_] = [{"op": "listen_excursion", "rx0": True, "arm": [pl() for _ in range(xr.randint(1, 2))]},
                      {"op": "send", "buf": pl(), "fr": 0, "so": xr.random() < 0.3, "na": False}]
    if lite_tx and xr.random() < 0.2:
        # rf24_lite wakes a sleeping radio by itself when it transmits (its write() switches to TX mode, power included)
        # (only right before a send(): resend() re-uses the payload in the FIFO and does not go through write())
        sends = [k_ for k_, o in enumerate(ops) if o["op"] in ("send", "sendlist")]
        if sends:
            ops.insert(xr.choice(sends), {"op": "power_off"})
    if xr.random() < 0.15:
        # a very slow bus (interpreted MCU, bit-banged SPI): one transaction outlasts a re-transmission and its ACK
        scn["tx_knobs"] = dict(scn["tx_knobs"], spi_overhead_us=xr.choice([800, 1500]), spi_jitter_us=xr.choice([0, 200]))
    if xr.random() < 0.3:
        scn["retry_history"] = [xr.choice([250, 500, 1000, 2000, 4000]), xr.choice([0, 1, 2, 5, 10, 15]), xr.choice(["ard", "arc"])]
    scn["ops"] = ops
    ar = stream(seed, "air")
    faults = []
    k = rng.random()
    if k < 0.6:
        p = rng.choice([0.1, 0.3, 0.6, 0.9])
        faults = [{"n": n} for n in range(200) if ar.random() < p]
    elif k < 0.75:
        t0 = ar.randrange(0, 40) * MS
        faults = [{"t0": t0, "t1": t0 + ar.randrange(1, 60) * MS}]
    scn["faults"] = faults
    return scn


def run(scn):
    res = Result()
    w = World(scn["seed"], plan=scn.get("faults"), max_events=600_000, max_time=60_000 * MS)
    try:
        _run(scn, w, res)
    except SimAbort:
        if w.sim.cap_hit in ("events", "time"):
            res.add("bounded", {"kind": "no_termination", "cap": w.sim.cap_hit}, "simulation cap hit inside a call: %s" % getattr(res, "last_call", None))
            res.inconclusive = None
            w.sim.cap_hit = None
    finally:
        res.absorb_world(w)
        w.close()
    return res


def _spi_max(mcu):
    return mcu.spi_overhead + mcu.spi_jitter + 40 * mcu.byte_ns + mcu.pin_ns + mcu.clock_ns


def _run(scn, w, res):
    sim = w.sim
    cfg = scn["cfg"]
    mode = scn["mode"]
    lite_tx = cfg["tx"]["cls"] == "lite"
    lite_rx = cfg["rx"]["cls"] == "lite"
    mcu = w.make_mcu("T", **scn["tx_knobs"])
    sim.main.mcu = mcu
    rt, tx, rr, rx = common.setup_link(w, cfg, mcu, mcu)
    arc, ard = scn["arc"], scn["ard"]
    if scn.get("retry_history") and hasattr(tx, "set_auto_retries"):
        # configuration history: the retry setup was first made in one call, then one of its halves changed through the attribute
        tx.set_auto_retries(scn["retry_history"][0], scn["retry_history"][1])
        sim.count("retry_setup_made_in_two_steps")
        if scn["retry_history"][2] == "ard":
            tx.set_auto_retries(scn["retry_history"][0], arc)
            tx.ard = ard
        else:
            tx.set_auto_retries(ard, scn["retry_history"][1])
            tx.arc = arc
    else:
        tx.arc = arc
        tx.ard = ard
    if mode == "ackpl":
        tx.ack = True
        rx.ack = True
    peer = scn.get("peer", "listening")
    if peer in ("deaf", "absent"):
        rx.listen = False
        if peer == "absent":
            rx.power = False
    elif peer == "full":
        for k in range(3):
            rr.inject_rx(cfg["pipe"], bytes([k]) * 4)
    loaded = []          # ACK payloads the peer queued, in order
    got_ackpl = []       # ACK payloads the PTX radio received (ground truth), in order
    failed = None        # (data, pid) of the payload that is waiting in the TX FIFO after MAX_RT
    ard_eff = ((rt.r[4] >> 4) + 1) * 250 * US

    def cycle_bound(ncyc):
        air = rt._airtime(32, 2, True)
        per = 130 * US + (1 + arc) * (air + ard_eff + 10 * US)
        return ncyc * per + per + 120 * _spi_max(mcu) + 2 * MS

    state_deaf = [sim.counters.get("ack_not_on_pipe0", 0)]

    def check_call(name, payloads, ret, t0, c0, a0, fr, so, is_list, resend_of=None, na=False):
        nonlocal failed
        cycles = rt.cycles[c0:]
        pkts = [t for t in w.air.trace[a0:] if t["src"] == "T" and not t["ack"]]
        # ---- "acknowledged by the peer": an ACK that was on the air, inside the window, and that the transmitter's radio turned down
        # because the driver had left pipe 0 closed or on another address is an acknowledgement all the same
        n_deaf = sim.counters.get("ack_not_on_pipe0", 0)
        if n_deaf > state_deaf[0]:
            state_deaf[0] = n_deaf
            res.add("truth", {"kind": "peer_ack_not_heard", "op": name},
                    "%s returned %r; the peer's acknowledgement was on the air in time but the transmitter's radio was not listening for it on pipe 0 "
                    "(EN_RXADDR=0x%02X, RX_ADDR_P0=%s, TX_ADDR=%s)" % (name, ret, rt.r[2], bytes(rt.a[0x0A]).hex(), bytes(rt.a[0x10]).hex()))
        # ---- the call must not return while the radio is still working on the payload
        if rt.txing:
            res.add("truth", {"kind": "returned_while_transmitting", "op": name},
                    "%s returned %r after %d us while a transmit cycle is still in progress (M1)" % (name, ret, (sim.now - t0) // US))
            # let the cycle finish so that later bookkeeping stays meaningful
            for _ in range(200):
                if not rt.txing:
                    break
                sim.advance(MS)
            cycles = rt.cycles[c0:]
        # ---- bounded
        ncyc_max = (1 + fr) * max(1, len(payloads))
        if sim.now - t0 > cycle_bound(ncyc_max):
            res.add("bounded", {"kind": "too_long", "op": name}, "%s took %d us, bound %d us" % (name, (sim.now - t0) // US, cycle_bound(ncyc_max) // US))
        # ---- group cycles by payload (in order)
        rets = list(ret) if is_list and isinstance(ret, (list, tuple)) else [ret]
        if is_list and (not isinstance(ret, list) or len(ret) != len(payloads)):
            res.add("list", {"kind": "shape"}, "send(%d payloads) returned %r" % (len(payloads), ret))
            return
        ci = 0
        for pi, pay in enumerate(payloads):
            mine = []
            while ci < len(cycles) and cycles[ci]["data"] == pay and len(mine) < 1 + fr:
                mine.append(cycles[ci])
                ci += 1
                if mine[-1]["result"] == "tx_ds":
                    break
            r = rets[pi]
            if not mine:
                if resend_of is None or resend_of is not False:
                    res.add("truth", {"kind": "no_cycle", "op": name}, "%s(%s) started no transmit cycle for its payload; returned %r" % (name, hx(pay)[:16], r))
                continue
            res.nontrivial = True
            if na and cfg.get("allow_ask_no_ack", True) and any(cy["expects_ack"] for cy in mine):
                res.add("truth", {"kind": "ask_no_ack_ignored", "op": name, "mode": mode},
                        "%s(ask_no_ack=True) was transmitted requesting an acknowledgement (attempts %r, result %s)" % (name, [cy["attempts"] for cy in mine], mine[-1]["result"]))
            ok = mine[-1]["result"] == "tx_ds"
            if ok != bool(r) and not (r is None and ok):
                res.add("truth", {"kind": "false_negative" if ok else "false_positive", "op": name, "fr": min(fr, 1)},
                        "%s returned %r but the radio's last cycle for the payload ended in %s (attempts %s)"
                        % (name, r, mine[-1]["result"], [c["attempts"] for c in mine]))
            elif not ok and len(mine) < 1 + fr:
                res.add("truth", {"kind": "gave_up_early", "op": name}, "%s returned %r after %d of %d cycles" % (name, r, len(mine), 1 + fr))
            elif not ok and any(cy["expects_ack"] and cy["attempts"] != 1 + arc for cy in mine):
                # "False iff every automatic ... retry went unacknowledged": each failed cycle made the configured number of attempts
                res.add("truth", {"kind": "wrong_number_of_attempts", "op": name},
                        "%s returned %r after cycles of %r attempts; arc = %d was configured (SETUP_RETR = 0x%02X)" % (name, r, [cy["attempts"] for cy in mine], arc, rt.r[4]))
            if ok:
                apl = mine[-1]["ackpl"]
                if apl is not None:
                    got_ackpl.append(apl)
                if so or mode != "ackpl":
                    if r is not True:
                        res.add("ackpl" if mode == "ackpl" else "truth", {"kind": "not_true", "so": so, "op": name},
                                "%s returned %r, expected True" % (name, r))
                else:
                    want = True if apl is None else apl
                    if (r is True) != (want is True) or (want is not True and (r is None or bytes(r) != want)):
                        res.add("ackpl", {"kind": "wrong_ack_payload", "op": name, "fr": min(fr, 1), "got_none": r is None},
                                "%s returned %r, the radio received ACK payload %r" % (name, r, want))
            elif r is not False:
                res.add("truth", {"kind": "failure_not_false", "op": name}, "%s returned %r for a failed payload" % (name, r))
            failed = None if ok else (pay, mine[-1]["pid"])
        if ci != len(cycles):
            extra = cycles[ci:]
            res.add("isolation", {"kind": "foreign_cycle", "op": name},
                    "%s ran cycles for other payloads: %r" % (name, [hx(c["data"])[:16] for c in extra]))
        # ---- isolation on the air
        allowed = set(payloads)
        for t in pkts:
            if t["data"] not in allowed:
                res.add("isolation", {"kind": "foreign_packet", "op": name},
                        "packet %s on the air during %s(%s)" % (hx(t["data"])[:16], name, [hx(p)[:16] for p in payloads]))
                break

    for op in scn["ops"]:
        res.last_call = op["op"]
        if op["op"] == "peer":
            do = op["do"]
            if peer == "absent":
                continue
            if do == "listen_off":
                rx.listen = False
            elif do == "listen_on":
                rx.listen = True
            elif do == "drain":
                for _ in range(8):
                    if not rx.available():
                        break
                    rx.read()
            elif do == "load_ack" and mode == "ackpl":
                for b in op["bufs"]:
                    if rx.load_ack(unhx(b), cfg["pipe"]):
                        loaded.append(unhx(b))
            continue
        if op["op"] == "blackout":
            w.air.blackout = bool(op["on"])
            continue
        if op["op"] == "listen_excursion":
            sim.log("call", "T", "listen_excursion")
            if op.get("rx1"):
                tx.open_rx_pipe(1, b"\x5a\x5a\x5a\x5a\x5a"[: cfg["aw"]])
            if op.get("rx0"):
                tx.open_rx_pipe(0, b"\xa5\x5a\xa5\x5a\xa5"[: cfg["aw"]])
            tx.listen = True
            for b in op.get("arm", ()):
                tx.load_ack(unhx(b), 0)
            sim.advance(int(0.7 * MS))
            tx.listen = False
            if op.get("rx0"):
                # back in TX mode the application gives up its reading pipe 0 and names its target again
                tx.close_rx_pipe(0)
                tx.open_tx_pipe(bytes(rt.a[0x10][: cfg["aw"]]))
                sim.count("listen_excursion_on_pipe0_with_unused_ack_payload")
            sim.count("listen_excursion")
            continue
        if op["op"] == "fill":
            # streaming idiom: fill the TX FIFO without starting a transmission, until write() refuses
            sim.log("call", "T", "fill")
            tx.ce_pin = False
            for b in op["bufs"]:
                if not tx.write(unhx(b), write_only=True):
                    break
            sim.count("tx_fifo_filled_by_streaming_writes")
            continue
        if op["op"] == "burst_resend":
            if w.air.blackout:
                continue
            sim.log("call", "T", "burst_resend")
            tx.flush_tx()
            tx.ce_pin = False
            w.air.blackout = True
            bufs = [unhx(b) for b in op["bufs"]]
            for b in bufs:
                tx.write(b, write_only=True)
            c0 = len(rt.cycles)
            tx.ce_pin = True
            for _ in range(400):
                sim.advance(MS)
                if len(rt.cycles) > c0 and not rt.txing:
                    break
            w.air.blackout = False
            head = rt.cycles[c0] if len(rt.cycles) > c0 else None
            if head is None or head["result"] != "max_rt" or rt.txing or len(rt.tx_fifo) != len(bufs):
                tx.ce_pin = False
                tx.flush_tx()
                tx.clear_status_flags()
                continue
            tx.update()
            c1, a1 = len(rt.cycles), len(w.air.trace)
            res.last_call = "resend (after a streamed burst)"
            ret = tx.resend(send_only=op["so"])
            sim.log("ret", "T", repr(ret))
            mine = rt.cycles[c1:]
            sim.count("resend_after_streamed_burst")
            res.nontrivial = True
            if not mine:
                res.add("isolation", {"kind": "resend_did_not_retransmit", "fifo": len(bufs)},
                        "resend() returned %r and started no transmit cycle although the failed payload %s heads a TX FIFO of %d payload(s)" % (ret, hx(bufs[0])[:16], len(bufs)))
            elif mine[0]["data"] != bufs[0] or mine[0]["pid"] != head["pid"]:
                res.add("isolation", {"kind": "resend_other_payload"},
                        "resend() transmitted %s pid %d, the failed payload was %s pid %d" % (hx(mine[0]["data"])[:16], mine[0]["pid"], hx(bufs[0])[:16], head["pid"]))
            elif mine[0]["result"] is None:
                res.add("truth", {"kind": "returned_while_transmitting", "op": "resend"}, "resend() returned %r while the re-transmission was still in progress" % (ret,))
            elif bool(ret) != (mine[0]["result"] == "tx_ds") and not (ret is None and mine[0]["result"] == "tx_ds"):
                res.add("truth", {"kind": "false_negative" if mine[0]["result"] == "tx_ds" else "false_positive", "op": "resend", "fr": 0},
                        "resend() returned %r but the re-transmission of the failed payload ended in %s" % (ret, mine[0]["result"]))
            if mine and mine[0]["ackpl"] is not None:
                got_ackpl.append(mine[0]["ackpl"])
            # the rest of the burst goes out on its own (CE stays high); let it finish, then tidy up
            for _ in range(400):
                if not rt.txing and (not rt.tx_fifo or rt.flags & 0x10):
                    break
                sim.advance(MS)
            for cy in rt.cycles[c1 + 1:]:
                if cy["ackpl"] is not None:
                    got_ackpl.append(cy["ackpl"])
            tx.ce_pin = False
            tx.flush_tx()
            tx.clear_status_flags()
            if not op["so"]:
                tx.flush_rx()
            failed = None
            continue
        if op["op"] == "power_off":
            if lite_tx and not w.air.blackout:
                tx.power = False
                sim.count("lite_powered_down_before_send")
            continue
        if op["op"] == "reenter":
            sim.log("call", "T", "reenter")
            tx.__exit__(None, None, None)
            sim.advance(int(1.7 * MS))
            tx.__enter__()
            tx.listen = False
            sim.count("context_reentered")
            continue
        if op["op"] == "tx_drain":
            for _ in range(8):
                if not tx.available():
                    break
                tx.read()
            continue
        t0, c0, a0 = sim.now, len(rt.cycles), len(w.air.trace)
        if op["op"] == "send":
            pay = unhx(op["buf"])
            sim.log("call", "T", "send", len(pay), op["fr"], op["so"], op["na"])
            ret = tx.send(pay, ask_no_ack=op["na"], force_retry=op["fr"], send_only=op["so"])
            sim.log("ret", "T", repr(ret))
            check_call("send", [pay], ret, t0, c0, a0, op["fr"], op["so"], False, na=op["na"])
        elif op["op"] == "sendlist":
            pays = [unhx(b) for b in op["bufs"]]
            arg = tuple(pays) if op.get("tuple") else list(pays)
            sim.log("call", "T", "sendlist", len(pays), op["fr"], op["so"], op["na"])
            ret = tx.send(arg, ask_no_ack=op["na"], force_retry=op["fr"], send_only=op["so"])
            sim.log("ret", "T", repr(ret))
            check_call("send(list)", pays, ret, t0, c0, a0, op["fr"], op["so"], True, na=op["na"])
        elif op["op"] == "resend":
            sim.log("call", "T", "resend", op["so"])
            want = failed
            # ground truth of "there is a failed payload": the TX FIFO still holds it
            has = bool(rt.tx_fifo)
            ret = tx.resend(send_only=op["so"])
            sim.log("ret", "T", repr(ret))
            if not has:
                if ret is not False or len(rt.cycles) != c0 or any(t["src"] == "T" for t in w.air.trace[a0:]):
                    res.add("isolation", {"kind": "resend_without_payload"},
                            "resend() with an empty TX FIFO returned %r, cycles %d, packets %d" % (ret, len(rt.cycles) - c0, len(w.air.trace) - a0))
                continue
            if want is None:
                # payload left behind by something other than a failed send (not generated)
                continue
            pay, pid = want
            for c in rt.cycles[c0:]:
                if c["data"] != pay or c["pid"] != pid:
                    res.add("isolation", {"kind": "resend_other_payload"},
                            "resend() transmitted %s pid %d, the failed payload was %s pid %d" % (hx(c["data"])[:16], c["pid"], hx(pay)[:16], pid))
            check_call("resend", [pay], ret, t0, c0, a0, 0, op["so"], False)
    # ---- ACK payload order
    # (M4 / M6: a packet the receiver takes for a repeat of the previous one - same 2-bit PID and same CRC, which also happens to a *new*
    # payload with the same bytes four uploads later when nothing in between got through - is answered with the same ACK payload
    # again: consecutive equal ACK payloads count once)
    got_ackpl = [g for k_, g in enumerate(got_ackpl) if k_ == 0 or g != got_ackpl[k_ - 1]]
    it = iter(loaded)
    for g in got_ackpl:
        for x in it:
            if x == g:
                break
        else:
            res.add("ackpl", {"kind": "ack_payload_order"}, "received ACK payloads %r are not an ordered subsequence of the loaded %r"
                    % ([hx(x) for x in got_ackpl], [hx(x) for x in loaded]))
            break
    res.sample = {"mode": mode, "peer": peer, "arc": arc, "ard": ard, "vec": scn.get("vec"),
                  "ops": [(o["op"], o.get("fr"), o.get("so")) for o in scn["ops"]][:8], "faults": len(scn.get("faults") or [])}
