"""C19 - received BLE packets decode to what was advertised; all else is ignored safely.

TX FakeBLE -> simulated air -> RX FakeBLE on the same channel; additionally the independent reference
encoder (checks/bleref.py) transmitting through a scripted injector chip.  The hardware CRC is off for BLE,
so air faults (bit flips) reach the MCU as corrupt payloads.

Clauses:
  decode    one queue element per valid packet, carrying the sender's MAC, name, PA level and each service
            value (battery, temperature at 0.01 resolution incl. negative, Eddystone URL + TX power, raw chunks)
  reject    an element is queued only if the received 32 bytes carry a consistent length byte and a valid CRC-24
            (reference codec), and is queued whenever they do (lengths 6..27, no RFU bits)
  no_raise  available() never raises, whatever 32 bytes arrive
  fifo      read() returns the queued elements in arrival order, each once, then None
"""
import hashlib

from nrfsim.core import SimAbort, stream, MS
from nrfsim.harness import Result
from nrfsim.mcu import World, Injector
from checks import bleref
from circuitpython_nrf24l01 import fake_ble
from circuitpython_nrf24l01.fake_ble import FakeBLE

PROP = "C19"
LEVEL = "fault_enumeration"
RULE = ("one scanner, in a third of the runs two (each on its own chip); polls that come late, so that up to three payloads - valid and invalid - wait in the RX FIFO; base packets: FakeBLE advertisements with seeded name (incl. the empty name) / PA level / battery 0..255 / temperature -300.00..+300.00 "
        "/ Eddystone URLs (4 schemes, every suffix code, printable characters) / raw chunks on all three channels, and "
        "reference-encoder PDUs (valid, CRC-valid adversarial: length byte 0..29 vs AD lengths, zero-length structures, "
        "service data shorter than its UUID, truncated fields, unknown types, invalid UTF-8 names; bad CRC; random 32 "
        "bytes). Fault space: every single-bit flip of the 32-byte payload of each enumerated base packet (256 per "
        "packet, enumerated completely) and seeded double flips. Non-trivial: at least one packet reached the receiver's "
        "RX FIFO; distinct = distinct (packet kinds, fault bits, outcome vector)")
ASSUMPTIONS = ["reference codec checks/bleref.py (Core spec whitening, CRC-24, PDU/AD parsing)",
               "temperature is compared at the 0.01 resolution with one unit of tolerance (the encoder truncates int(value*100))",
               "CRC-valid PDUs whose length byte is < 6 or has RFU bits set: either outcome accepted (only no_raise is enforced)",
               "raw / unknown structures must appear byte-for-byte in one of the element's data entries"]
CLAUSES = {"decode": "queued element equals what was advertised", "reject": "inconsistent length byte or CRC-24 => not queued",
           "no_raise": "available() never raises for any 32 received bytes", "fifo": "read() in arrival order, each once"}
PROBES = ["crc_valid_malformed_pdu", "flip_in_padding_still_valid", "end_to_end_checked", "scanner_reentered", "scanner_reentered_with_unread_elements"]
SHRINK_KEYS = ("packets", "faults")
CHUNK = 60
CHS = [2, 26, 80]
URL_SUFFIX = [".com", ".org", ".edu", ".net", ".info", ".biz", ".gov"]
URL_PREFIX = ["http://www.", "https://www.", "http://", "https://"]

N_BASE_Q, N_BASE_T = 16, 600


def count(tier):
    nb = N_BASE_Q if tier == "quick" else N_BASE_T
    return nb * 32 + (2500 if tier == "quick" else 150000)


def exhaustive(tier):
    return False


def _rand_items(rng, free):
    """service data items that fit into `free` bytes"""
    items = []
    for _ in range(rng.randint(0, 3)):
        k = rng.random()
        if k < 0.25 and free >= 5:
            items.append({"t": "bat", "v": rng.choice([0, 1, 85, 100, 255, rng.randint(0, 255)])})
            free -= 5
        elif k < 0.5 and free >= 8:
            v = rng.choice([0.0, -0.01, 0.01, -10.0, 42.85, -300.0, 300.0, 0.29, round(rng.uniform(-300, 300), 2)])
            items.append({"t": "temp", "v": v})
            free -= 8
        elif k < 0.7 and free >= 8:
            room = free - 6
            pre = rng.randrange(4)
            body = "".join(rng.choice("abcdefghijklmnopqrstuvwxyz0123456789-_~") for _ in range(rng.randint(1, max(1, min(8, room - 2)))))
            suf = rng.choice(URL_SUFFIX) + rng.choice(["", "/"])
            url = URL_PREFIX[pre] + body + (suf if len(body) + 2 <= room else "")
            items.append({"t": "url", "v": url, "pa": rng.choice([-25, -100, 0, 20, -1])})
            enc = 1 + len(body) + (1 if suf and len(body) + 2 <= room else 0)
            free -= 6 + enc
        elif free >= 3:
            n = rng.randint(1, min(6, free - 2))
            items.append({"t": "raw", "type": rng.choice([0xFF, 0xFF, 0x24, 0x1B]), "d": bytes(rng.getrandbits(8) for _ in range(n)).hex()})
            free -= 2 + n
    return items


def _rand_ble_packet(rng):
    name = None
    free = 18
    if rng.random() < 0.5:
        n = rng.choice([1, 3, 5, 8, 0])     # 0: the empty name (a name structure with no characters)
        name = "".join(rng.choice("nRF24L01abcXYZ_") for _ in range(n))
        free -= n + 2
    show = rng.random() < 0.4
    if show:
        free -= 3
    return {"kind": "ble", "name": name, "show": show, "pa": rng.choice([-18, -12, -6, 0]), "mac": rng.getrandbits(48),
            "items": _rand_items(rng, free)}


def _adversarial(rng):
    """CRC-valid (unless stated) PDUs from the reference encoder with hostile structure"""
    mac = bytes(rng.getrandbits(8) for _ in range(6))
    k = rng.randrange(12)
    desc = ["ok_simple", "zero_len_struct", "struct_overruns", "svc_shorter_than_uuid", "truncated_temp", "truncated_batt",
            "truncated_eddystone", "unknown_types", "bad_utf8_name", "length_byte_sweep", "bad_crc", "pa_level_wrong_size"][k]
    L = None
    bad_crc = False
    if k == 0:
        adv = bleref.ad(1, b"\x05") + bleref.ad(0x09, b"peer") + bleref.ad(0x0A, bytes([rng.choice([0xEE, 0, 4, 0x80])]))
    elif k == 1:
        adv = bleref.ad(1, b"\x05") + b"\x00" + bytes(rng.getrandbits(8) for _ in range(rng.randint(0, 5)))
    elif k == 2:
        adv = bleref.ad(1, b"\x05") + bytes([rng.randint(5, 40), 0x16]) + bytes(rng.getrandbits(8) for _ in range(rng.randint(0, 3)))
    elif k == 3:
        adv = bleref.ad(1, b"\x05") + bleref.ad(0x16, bytes(rng.getrandbits(8) for _ in range(rng.randint(0, 1))))
    elif k == 4:
        adv = bleref.ad(0x16, b"\x09\x18" + bytes(rng.getrandbits(8) for _ in range(rng.randint(0, 2))))
    elif k == 5:
        adv = bleref.ad(0x16, b"\x0f\x18")
    elif k == 6:
        adv = bleref.ad(0x16, b"\xaa\xfe" + bytes(rng.getrandbits(8) for _ in range(rng.randint(0, 2))))
    elif k == 7:
        adv = b"".join(bleref.ad(rng.choice([0x02, 0x03, 0x19, 0x20, 0xFE, 0x00]), bytes(rng.getrandbits(8) for _ in range(rng.randint(0, 4)))) for _ in range(rng.randint(1, 3)))
    elif k == 8:
        adv = bleref.ad(0x08, bytes([0xFF, 0xFE, 0xC0])) + bleref.ad(0x09, b"\x80")
    elif k == 9:
        adv = bytes(rng.getrandbits(8) for _ in range(rng.randint(0, 19)))
        L = rng.choice(list(range(0, 30)) + [63, 64, 127, 200, 255])
    elif k == 10:
        adv = bleref.ad(1, b"\x05") + bleref.ad(0x09, b"x")
        bad_crc = True
    else:
        adv = bleref.ad(0x0A, bytes(rng.getrandbits(8) for _ in range(rng.choice([0, 2, 3]))))
    adv = adv[:19]
    return {"kind": "ref", "mac": mac.hex(), "adv": adv.hex(), "L": L, "bad_crc": bad_crc, "desc": desc}


def make(i, base_seed, tier):
    seed = base_seed * 1_000_003 + i
    nb = N_BASE_Q if tier == "quick" else N_BASE_T
    if i < nb * 32:
        # enumeration: base packet b, its 256 single-bit flips in 32 scenarios of 8 packets each
        b, part = i // 32, i % 32
        brng = stream(base_seed * 1_000_003 + 7_000_000 + b, "base")
        pkt = _rand_ble_packet(brng) if b % 2 == 0 else _adversarial(brng)
        if pkt["kind"] == "ref":
            pkt["bad_crc"] = False
        return {"seed": seed, "ch": CHS[b % 3], "packets": [dict(pkt) for _ in range(8)],
                "faults": [{"n": j, "what": "flip", "bits": [part * 8 + j]} for j in range(8)], "enum": True, "reuse_chunks": b % 4 == 0}
    rng = stream(seed, "work")
    pkts, faults = [], []
    for j in range(rng.randint(1, 8)):
        k = rng.random()
        if k < 0.45:
            pkts.append(_rand_ble_packet(rng))
        elif k < 0.85:
            pkts.append(_adversarial(rng))
        else:
            pkts.append({"kind": "random", "d": bytes(rng.getrandbits(8) for _ in range(32)).hex()})
        f = rng.random()
        if f < 0.25:
            faults.append({"n": j, "what": "flip", "bits": sorted(rng.sample(range(256), 2))})
        elif f < 0.35:
            faults.append({"n": j, "what": "flip", "bits": sorted(rng.sample(range(256), rng.randint(3, 6)))})
        elif f < 0.4:
            faults.append({"n": j, "what": "drop"})
    xr = stream(seed, "ext")
    multi = [p_ for p_ in pkts if p_["kind"] == "ble" and len(p_["items"]) >= 2]
    if multi and len(pkts) < 8 and xr.random() < 0.5:
        pkts.append(dict(xr.choice(multi)))       # the same sensor data advertised once more
    return {"seed": seed, "ch": rng.choice(CHS), "packets": pkts, "faults": faults, "enum": False,
            "scanners": 2 if xr.random() < 0.3 else 1,
            # the application is late for some polls: up to three payloads (valid and invalid ones) wait in the RX FIFO
            "hold": [j for j in range(len(pkts)) if xr.random() < 0.35],
            # histories of the two objects between packets: the advertiser hops and leaves / re-enters its context (the scanner follows the
            # channel); the scanner - with elements still unread - advertises something itself and listens again
            "tx_hops": {str(j): xr.randint(1, 4) for j in range(len(pkts)) if xr.random() < 0.2},
            "scanner_advertises": [j for j in range(len(pkts)) if xr.random() < 0.15],
            "reuse_chunks": xr.random() < 0.4,
            # the scanner leaves its context (elements still unread) and enters it again, then listens on
            "scanner_reenters": [j for j in range(len(pkts)) if xr.random() < 0.12]}


def _expect_from_pdu(pdu):
    """What a correct decoder must report for a valid PDU (reference parse)."""
    ads, ok = bleref.parse_ads(pdu[8:])
    return {"mac": pdu[2:8], "ads": ads, "ads_ok": ok}


def _check_elem(res, elem, pdu, src):
    """compare a queued element with the reference parse of the valid PDU it was built from"""
    exp = _expect_from_pdu(pdu)
    if bytes(elem.mac) != exp["mac"]:
        res.add("decode", {"kind": "mac"}, "element MAC %s, advertised %s" % (bytes(elem.mac).hex(), exp["mac"].hex()))
        return
    if not exp["ads_ok"]:
        return  # malformed structures: only the MAC (and not raising) is defined
    name = None
    pa = None
    for t, d in exp["ads"]:
        if t in (0x08, 0x09):
            try:
                name = d.decode()
            except UnicodeError:
                name = bytes(d)
        elif t == 0x0A and len(d) == 1:
            pa = d[0] - 256 if d[0] > 127 else d[0]
    if elem.name != name:
        res.add("decode", {"kind": "name"}, "element name %r, advertised %r" % (elem.name, name))
    if elem.pa_level != pa:
        res.add("decode", {"kind": "pa_level"}, "element pa_level %r, advertised %r" % (elem.pa_level, pa))
    # service values, in order
    svc = [x for x in elem.data if isinstance(x, fake_ble.ServiceData)]
    raw = [bytes(x) for x in elem.data if not isinstance(x, fake_ble.ServiceData)]
    k = 0
    for t, d in exp["ads"]:
        if t == 0x16 and len(d) >= 2:
            uuid = d[0] | (d[1] << 8)
            body = d[2:]
            if uuid == 0x180F and len(body) >= 1:
                if k >= len(svc) or not isinstance(svc[k], fake_ble.BatteryServiceData) or svc[k].data != body[0]:
                    res.add("decode", {"kind": "battery"}, "battery advertised %d, element holds %r" % (body[0], svc[k].data if k < len(svc) else None))
                k += 1
            elif uuid == 0x1809 and len(body) >= 3:
                want = int.from_bytes(body[:3], "little")
                want = want - (1 << 24) if want & 0x800000 else want
                got = svc[k].data if k < len(svc) and isinstance(svc[k], fake_ble.TemperatureServiceData) else None
                if got is None or abs(round(got * 100) - want) > 0:
                    res.add("decode", {"kind": "temperature", "negative": want < 0}, "temperature advertised %.2f, element holds %r" % (want / 100, got))
                k += 1
            elif uuid == 0xFEAA and len(body) >= 3:
                got = svc[k] if k < len(svc) and isinstance(svc[k], fake_ble.UrlServiceData) else None
                want_url = _ref_url(body[2:])
                want_pa = body[1] - 256 if body[1] > 127 else body[1]
                if got is None or (want_url is not None and got.data != want_url) or got.pa_level_at_1_meter != want_pa:
                    res.add("decode", {"kind": "url"}, "URL advertised %r (tx power %d), element holds %r / %r"
                            % (want_url, want_pa, got.data if got else None, got.pa_level_at_1_meter if got else None))
                k += 1
            elif uuid in (0x180F, 0x1809, 0xFEAA):
                k += 1  # truncated known service: value undefined, only its presence consumes a slot
            else:
                if not any(bytes(d) in r for r in raw):
                    res.add("decode", {"kind": "raw_service_data"}, "service data %s not found in element data %r" % (d.hex(), [r.hex() for r in raw]))
        elif t not in (0x01, 0x08, 0x09, 0x0A, 0x16):
            if not any(bytes(d) in r for r in raw):
                res.add("decode", {"kind": "raw_chunk"}, "chunk type 0x%02X data %s not found in element data %r" % (t, d.hex(), [r.hex() for r in raw]))


def _ref_url(enc):
    """Eddystone-URL expansion (scheme byte + suffix codes), reference"""
    try:
        if not enc or enc[0] > 3:
            return None
        out = URL_PREFIX[enc[0]]
        for c in enc[1:]:
            if c < 7:
                out += URL_SUFFIX[c] + "/"
            elif c < 14:
                out += URL_SUFFIX[c - 7]
            elif 0x20 < c < 0x7F:
                out += chr(c)
            else:
                return None
        return out
    except Exception:
        return None


def run(scn):
    res = Result()
    w = World(scn["seed"], plan=scn.get("faults"), max_events=400_000, max_time=120_000 * MS)
    try:
        _run(scn, w, res)
    except SimAbort:
        pass
    finally:
        res.absorb_world(w)
        w.close()
    return res


def _judge_one(scn, w, res, rx, rr, p, a0, a1, advertised, stored, expected, outcomes, counts, ch=None):
    """poll once for the payload at the head of the scanner's RX FIFO and judge what the driver made of it"""
    sim = w.sim
    ch = scn["ch"] if ch is None else ch
    if not stored:
        # the scanner's radio did not store this packet (lost, or its FIFO was full): no poll is spent on it
        outcomes.append("lost")
        if advertised and not any(a0 <= r.get("n", -1) < a1 for r in (scn.get("faults") or [])):
            res.add("decode", {"kind": "advertised_not_received", "name_len": len(p["name"]) if p["name"] is not None else -1},
                    "advertise() with name %r was accepted and transmitted undisturbed, but the scanner's radio stored nothing" % (p["name"],))
            return False
        return True
    # what did the receiver's radio actually get? (ground truth: head of its RX FIFO)
    got = rr.rx_fifo[0][1] if rr.rx_fifo else None
    qlen0 = len(rx.rx_queue)
    try:
        rx.available()
    except SimAbort:
        raise
    except Exception as e:
        res.add("no_raise", {"kind": "available_raised", "exc": type(e).__name__, "desc": p.get("desc", p["kind"])},
                "available() raised %r for received payload %s (%s)" % (e, got.hex() if got else None, p.get("desc", p["kind"])))
        return False
    queued = len(rx.rx_queue) - qlen0
    if advertised and not any(a0 <= r.get("n", -1) < a1 for r in (scn.get("faults") or [])):
        # end to end: an advertisement FakeBLE accepted, sent over an undisturbed medium to a receiver on its channel,
        # yields exactly one element carrying the advertised name and PA level (whatever went over the air in between)
        if queued != 1:
            res.add("decode", {"kind": "advertised_not_received", "name_len": len(p["name"]) if p["name"] is not None else -1},
                    "advertise() with name %r, show_pa_level %r, %d item(s) was accepted and transmitted undisturbed, but the receiver queued %d elements"
                    % (p["name"], p["show"], len(p["items"]), queued))
            return False
        el = rx.rx_queue[-1]
        nm = el.name.decode() if isinstance(el.name, (bytes, bytearray)) else el.name
        if (nm or None) != (p["name"] or None):
            res.add("decode", {"kind": "name", "end_to_end": True}, "advertised name %r, element name %r" % (p["name"], el.name))
        if el.pa_level != (p["pa"] if p["show"] else None):
            res.add("decode", {"kind": "pa_level", "end_to_end": True}, "advertised pa_level %r (shown: %r), element pa_level %r" % (p["pa"], p["show"], el.pa_level))
        if len(el.data) != len(p["items"]) + 1:        # (+ the flags structure every advertisement begins with)
            res.add("decode", {"kind": "item_count", "end_to_end": True}, "advertised %d data item(s) %r, the element holds %d: %r"
                    % (len(p["items"]), [it["t"] for it in p["items"]], len(el.data), [type(x).__name__ for x in el.data]))
        sim.count("end_to_end_checked")
    if got is None:
        outcomes.append("lost")
        if queued:
            res.add("reject", {"kind": "queued_without_reception"}, "an element was queued although nothing was received")
        return True
    counts["received"] += 1
    d = bleref.decode(got, ch)
    # reference verdict on the 32 received bytes (full length byte, no RFU masking)
    Lb = None
    valid = False
    strict = False
    bits = bleref.whiten(bleref.nrf_bits(got), bleref.RF_CH_TO_BLE[ch])
    hdr = bleref.lsb_bytes(bits[:16])
    Lb = hdr[1]
    if 2 + Lb + 3 <= 32:
        end = 16 + 8 * Lb
        valid = bits[end:end + 24] == bleref.crc24(bits[:end])
        strict = valid and 6 <= Lb <= 27
    if queued > 1:
        res.add("reject", {"kind": "multiple_elements"}, "one received payload queued %d elements" % queued)
    elif queued and not valid:
        res.add("reject", {"kind": "invalid_queued", "len_byte_fits": 2 + Lb + 3 <= 32},
                "payload with length byte %d / CRC %s was queued" % (Lb, "valid" if valid else "invalid"))
    elif strict and not queued:
        res.add("reject", {"kind": "valid_not_queued"}, "valid packet (length %d, CRC ok) was not queued: %s" % (Lb, got.hex()))
    outcomes.append("queued" if queued else "rejected")
    if queued and strict:
        pdu = bleref.lsb_bytes(bits[:16 + 8 * Lb])
        expected.append(pdu)
        _check_elem(res, rx.rx_queue[-1], pdu, p)
        if p["kind"] == "ref" and p.get("desc") not in (None, "ok_simple"):
            sim.count("crc_valid_malformed_pdu")
        if any(r.get("n") == a1 - 1 for r in (scn.get("faults") or [])):
            sim.count("flip_in_padding_still_valid")
    elif queued:
        expected.append(None)
    if res.violations:
        return False
    return True


def _run(scn, w, res):
    sim = w.sim
    ch = scn["ch"]
    rr = w.radio("RX")
    rx = FakeBLE(*w.bus(rr))
    rt = w.radio("TX")
    tx = FakeBLE(*w.bus(rt))
    inj = Injector(w, "INJ", channel=ch, rate=1, aw=4, crc=0, esb=False, dpl=False)
    rx.__enter__()
    rx.channel = ch
    rx.listen = True
    tx.__enter__()
    tx.channel = ch
    sim.advance(300_000)
    rx2 = rr2 = None
    if scn.get("scanners", 1) == 2:
        rr2 = w.radio("RX2")
        rx2 = FakeBLE(*w.bus(rr2))
        rx2.__enter__()
        rx2.channel = ch
        rx2.listen = True
    expected = []   # per arrival: reference PDU (valid) -> element expected
    outcomes = []
    counts = {"received": 0}
    scn_ch = [ch]
    kept_chunks = {}
    pending = []   # packets sent but not yet polled for: (packet, trace window, advertised, stored by the scanner)
    hold = scn.get("hold") or []
    for j, p in enumerate(scn["packets"]):
        if str(j) in (scn.get("tx_hops") or {}) and not pending and not (scn.get("faults") or []):
            for _ in range(scn["tx_hops"][str(j)]):
                tx.hop_channel()
            tx.__exit__(None, None, None)
            tx.__enter__()
            ch = tx.channel                      # what the advertiser's object says it is tuned to
            scn_ch[0] = ch
            inj.radio.r[5] = ch
            for (r_, o_) in ((rr, rx), (rr2, rx2)):
                if o_ is not None:
                    o_.channel = ch
            sim.advance(300_000)
            sim.count("advertiser_hopped_and_reentered")
        if j in (scn.get("scanner_reenters") or []) and not pending:
            q_before = len(rx.rx_queue)
            rx.__exit__(None, None, None)
            sim.advance(500_000)
            rx.__enter__()
            rx.channel = scn_ch[0]
            rx.listen = True
            sim.advance(5_000_000)
            if len(rx.rx_queue) != q_before:
                res.add("fifo", {"kind": "queue_changed_by_reentry"}, "leaving and re-entering the scanner's context changed its queue from %d to %d unread elements" % (q_before, len(rx.rx_queue)))
                return
            sim.count("scanner_reentered", 1)
            sim.count("scanner_reentered_with_unread_elements", 1 if q_before else 0)
        if j in (scn.get("scanner_advertises") or []) and not pending and not (scn.get("faults") or []) and rx2 is None:   # (a second scanner would hear it)
            # one more packet reaches the scanner after its last poll, then it turns advertiser for a moment
            inj.radio.r[5] = scn_ch[0]
            inj.send(b"\x71\x91\x7d\x6b", bytes([0x5A] * 32), want_ack=False)
            q_before = len(rx.rx_queue)
            rx.listen = False
            rx.advertise(b"\x01", 0xFF)
            rx.listen = True
            if len(rx.rx_queue) != q_before:
                res.add("fifo", {"kind": "queue_changed_by_advertise"}, "the scanner's advertise() changed its queue from %d to %d unread elements" % (q_before, len(rx.rx_queue)))
                return
            if rx2 is not None:
                rx2.available()
            rx.available()        # (the noise packet: rejected)
            sim.count("scanner_advertised_with_unread_elements", q_before)
        a0 = len(w.air.trace)
        advertised = False
        fifo_before = len(rr.rx_fifo)
        sim.log("pkt", "T", p["kind"])
        if p["kind"] == "ble":
            tx.mac = p["mac"]
            tx.name = p["name"]
            tx.show_pa_level = p["show"]
            tx.pa_level = p["pa"]
            chunks = []
            for it in p["items"]:
                if it["t"] == "bat":
                    s = fake_ble.BatteryServiceData()
                    s.data = it["v"]
                    chunks.append(fake_ble.chunk(s.buffer))
                elif it["t"] == "temp":
                    s = fake_ble.TemperatureServiceData()
                    s.data = float(it["v"])
                    chunks.append(fake_ble.chunk(s.buffer))
                elif it["t"] == "url":
                    s = fake_ble.UrlServiceData()
                    s.pa_level_at_1_meter = it["pa"]
                    s.data = it["v"]
                    chunks.append(fake_ble.chunk(s.buffer))
                else:
                    chunks.append(fake_ble.chunk(bytes.fromhex(it["d"]), it["type"]))
            if scn.get("reuse_chunks") and len(chunks) >= 2:
                key_ = repr(p["items"])
                if key_ in kept_chunks:
                    chunks = kept_chunks[key_]           # the application advertises the same list of chunk() results again
                    sim.count("chunk_list_advertised_again")
                else:
                    kept_chunks[key_] = chunks
            try:
                tx.advertise(chunks)
            except ValueError:
                continue  # generator overshot the capacity: not a packet
            advertised = True
        elif p["kind"] == "ref":
            pdu = bleref.make_pdu(bytes.fromhex(p["mac"]), bytes.fromhex(p["adv"]), length=p["L"])
            inj.send(b"\x71\x91\x7d\x6b", bleref.encode(pdu, ch, bad_crc=p["bad_crc"])[:32], want_ack=False)
        else:
            inj.send(b"\x71\x91\x7d\x6b", bytes.fromhex(p["d"]), want_ack=False)
        sim.advance(200_000)
        pending.append((p, a0, len(w.air.trace), advertised, len(rr.rx_fifo) > fifo_before, scn_ch[0]))
        if rx2 is not None:
            try:
                rx2.available()          # the second scanner polls after every packet
            except SimAbort:
                raise
            except Exception as e:    # noqa: BLE001
                res.add("no_raise", {"kind": "available_raised", "exc": type(e).__name__, "desc": p.get("desc", p["kind"])},
                        "available() of the second scanner raised %r after packet %r" % (e, p.get("desc", p["kind"])))
                return
        if j in hold and j != len(scn["packets"]) - 1 and len(rr.rx_fifo) < 3:
            sim.count("poll_skipped")
            continue                 # the application is late: this payload waits in the RX FIFO until after the next packet
        for (p, a0, a1, advertised, stored, ch_) in pending:
            if _judge_one(scn, w, res, rx, rr, p, a0, a1, advertised, stored, expected, outcomes, counts, ch_) is False:
                return
        pending = []
    for (p, a0, a1, advertised, stored, ch_) in pending:
        if _judge_one(scn, w, res, rx, rr, p, a0, a1, advertised, stored, expected, outcomes, counts, ch_) is False:
            return
    received = counts["received"]
    if rx2 is not None and not res.violations:
        # the second scanner heard the same packets (same medium, same corruptions): it holds as many elements, in the same order
        n2 = 0
        for k_ in range(len(expected) + 4):
            e2 = rx2.read()
            if e2 is None:
                break
            n2 += 1
            if k_ < len(expected) and expected[k_] is not None and bytes(e2.mac) != expected[k_][2:8]:
                res.add("fifo", {"kind": "order", "scanner": 2}, "the second scanner's read() #%d returned MAC %s, arrival order says %s" % (k_, bytes(e2.mac).hex(), expected[k_][2:8].hex()))
                break
        if n2 != len(expected) and not res.violations:
            res.add("fifo", {"kind": "count", "scanner": 2}, "the second scanner delivered %d elements, the first %d (same packets on the same medium)" % (n2, len(expected)))
        sim.count("two_scanners")
    # ---- fifo: arrival order, each once, then None
    for k, pdu in enumerate(expected):
        e = rx.read()
        if e is None:
            res.add("fifo", {"kind": "missing"}, "read() returned None with %d elements outstanding" % (len(expected) - k))
            break
        if pdu is not None and bytes(e.mac) != pdu[2:8]:
            res.add("fifo", {"kind": "order"}, "read() #%d returned MAC %s, arrival order says %s" % (k, bytes(e.mac).hex(), pdu[2:8].hex()))
            break
    else:
        if rx.read() is not None:
            res.add("fifo", {"kind": "extra"}, "read() returned an element after the queue was drained")
    res.nontrivial = received > 0
    res.isig = hashlib.blake2b(repr(([p.get("desc", p["kind"]) for p in scn["packets"]], [f.get("bits") for f in scn.get("faults") or []],
                                     outcomes, scn["ch"], [str(p.get("items")) for p in scn["packets"]][:2])).encode(), digest_size=8).hexdigest()
    res.sample = {"ch": ch, "packets": [p.get("desc", p["kind"]) for p in scn["packets"]], "faults": (scn.get("faults") or [])[:4], "outcomes": outcomes}
