"""Multi-node network harness: every node is a real library object on its own chip model and MCU,
running the canonical application loop in its own simulated task.

    while running:  execute posted commands; node.update(); drain node's queue into a log; idle-wait

Idle nodes are lazy pollers (DESIGN.md 2.1): a node whose radio's RX FIFO is empty parks until its radio latches
RX_DR (then resumes at a seeded instant within its poll period) or a command is posted for it.  Polling an empty
radio has no effect on the library's state, so the skipped iterations are unobservable.
"""
import traceback

from nrfsim.core import SimAbort, MS, US
from nrfsim.mcu import World
from circuitpython_nrf24l01.rf24_network import RF24Network, RF24NetworkRoutingOnly
from circuitpython_nrf24l01.rf24_mesh import RF24Mesh, RF24MeshNoMaster
from circuitpython_nrf24l01.network.structs import RF24NetworkHeader, RF24NetworkFrame

CLASSES = {"net": RF24Network, "router": RF24NetworkRoutingOnly, "mesh": RF24MeshNoMaster, "master": RF24Mesh}


class Cmd:
    def __init__(self, name, fn):
        self.name, self.fn = name, fn
        self.done = False
        self.result = None
        self.exc = None
        self.tb = None
        self.t0 = self.t1 = None


class NodeCtl:
    def __init__(self, net, key, radio, mcu, node, cls):
        self.net, self.key, self.radio, self.mcu, self.node, self.cls = net, key, radio, mcu, node, cls
        self.task = None
        self.log = []          # (time, from, to, type, bytes, frame_id) as dequeued by the application
        self.cmds = []
        self.idle = False
        self.busy = False
        self.update_exc = []   # exceptions escaping update()
        self.updates = 0
        self.running = True
        self.hold_until = 0    # the application takes no new command before this instant (it keeps polling)
        self.no_read = False   # the application keeps calling update() but leaves received messages in the queue

    @property
    def addr(self):
        return self.node.node_address


class Net:
    def __init__(self, w, post_call=None):
        self.w = w
        self.sim = w.sim
        self.nodes = {}
        self.stop = False
        self.post_call = post_call   # callback(nodectl, call name) after every public call returns

    # ------------------------------------------------------------------ construction
    def add(self, key, cls, arg, knobs=None, plus=True, backend="spidev", setup=None):
        """cls: net|router (arg = node address) or mesh|master (arg = node id). Constructed from the main task."""
        mcu = self.w.make_mcu("n%s" % key, **(knobs or {}))
        radio = self.w.radio("n%s" % key, plus=plus)
        spi, csn, ce = self.w.bus(radio, mcu=mcu, backend=backend)
        node = CLASSES[cls](spi, csn, ce, arg)
        nc = NodeCtl(self, key, radio, mcu, node, cls)
        nc.bus, nc.arg, nc.setup = (spi, csn, ce), arg, setup
        if setup is not None:
            setup(node)
        self.nodes[key] = nc
        return nc

    def start(self, keys=None):
        for key, nc in self.nodes.items():
            if keys is not None and key not in keys:
                continue
            if nc.task is None:
                nc.task = self.sim.spawn("node%s" % key, lambda nc=nc: self._loop(nc), nc.mcu,
                                         start_at=self.sim.now + nc.mcu.rng.randint(0, nc.mcu.poll_ns))
                nc.radio.on_rx_dr = lambda nc=nc: self._rx_wake(nc)

    def _rx_wake(self, nc):
        if nc.idle and nc.task is not None:
            self.sim.wake(nc.task, at=self.sim.now + nc.mcu.rng.randint(0, nc.mcu.poll_ns))

    # ------------------------------------------------------------------ node task
    def restart(self, nc, arg=None):
        """MCU reset: a fresh driver object on the same (dirty, still running) radio; only the chip's state survives"""
        nc.node = CLASSES[nc.cls](nc.bus[0], nc.bus[1], nc.bus[2], nc.arg if arg is None else arg)
        if nc.setup is not None:
            nc.setup(nc.node)
        self.sim.count("mcu_restart")
        return nc.node.node_address

    def _loop(self, nc):
        sim = self.sim
        while not self.stop and nc.running:
            node = nc.node
            while nc.cmds and sim.now >= nc.hold_until:
                c = nc.cmds.pop(0)
                if c.name == "hold":
                    # application-level pause: the main loop keeps calling update(), it just waits with its next call
                    nc.hold_until = sim.now + int(c.fn)
                    c.t0 = c.t1 = sim.now
                    c.done = True
                    continue
                nc.busy = True
                c.t0 = sim.now
                sim.log("call", nc.key, c.name)
                try:
                    c.result = c.fn(node)
                except SimAbort:
                    raise
                except Exception as e:
                    c.exc = e
                    c.tb = traceback.format_exc()
                c.t1 = sim.now
                sim.log("ret", nc.key, c.name, repr(c.result)[:40], type(c.exc).__name__)
                c.done = True
                nc.busy = False
                if self.post_call is not None:
                    self.post_call(nc, c.name)
                self._drain(nc)
            node = nc.node
            try:
                nc.updates += 1
                node.update()
            except SimAbort:
                raise
            except Exception as e:
                nc.update_exc.append((sim.now, e, traceback.format_exc()))
                sim.log("update_exc", nc.key, type(e).__name__)
            if self.post_call is not None:
                self.post_call(nc, "update")
            self._drain(nc)
            if self.stop or not nc.running:
                break
            if nc.cmds and sim.now < nc.hold_until and not nc.radio.rx_fifo:
                nc.idle = True
                sim.after(nc.hold_until - sim.now, self._hold_wake, nc)
                sim.park()
                nc.idle = False
                continue
            if nc.radio.rx_fifo or nc.cmds:
                sim.advance(nc.mcu.rng.randint(0, max(1, nc.mcu.poll_ns // 4)) + 10 * US)
                continue
            nc.idle = True
            sim.park()
            nc.idle = False

    def _hold_wake(self, nc):
        if nc.idle and nc.task is not None:
            self.sim.wake(nc.task)

    def _drain(self, nc):
        node = nc.node
        if nc.no_read:
            return
        while node.available():
            f = node.read()
            if f is None:
                break
            nc.log.append((self.sim.now, f.header.from_node, f.header.to_node, f.header.message_type, bytes(f.message), f.header.frame_id))
            self.sim.log("deliver", nc.key, f.header.from_node, f.header.message_type, len(f.message))
            if len(nc.log) > 500:
                break

    # ------------------------------------------------------------------ orchestration (main task)
    def post(self, key, name, fn):
        nc = self.nodes[key]
        c = Cmd(name, fn)
        nc.cmds.append(c)
        if nc.idle:
            self.sim.wake(nc.task)
        return c

    def hold(self, key, ns):
        """the node's application waits `ns` before its next command but keeps running its update() loop"""
        return self.post(key, "hold", int(ns))

    def wait(self, cmd, timeout=60_000 * MS, step=200 * US):
        deadline = self.sim.now + timeout
        while not cmd.done and self.sim.now < deadline:
            self.sim.advance(step)
        return cmd.done

    def call(self, key, name, fn, timeout=60_000 * MS):
        c = self.post(key, name, fn)
        self.wait(c, timeout)
        return c

    def is_quiet(self):
        if self.w.air.active:
            return False
        for nc in self.nodes.values():
            r = nc.radio
            if r.txing or r.acking or r.rx_fifo:
                return False
            if nc.task is not None and nc.running and (not nc.idle or nc.cmds or nc.busy):
                return False
        return True

    def wait_quiet(self, quiet=3 * MS, timeout=2000 * MS, step=250 * US):
        deadline = self.sim.now + timeout
        since = None
        while self.sim.now < deadline:
            if self.is_quiet():
                if since is None:
                    since = self.sim.now
                elif self.sim.now - since >= quiet:
                    return True
            else:
                since = None
            self.sim.advance(step)
        return False

    def halt(self, key):
        """stop a node's application (it keeps its radio as it is: an absent / crashed MCU)"""
        nc = self.nodes[key]
        nc.running = False
        if nc.idle:
            self.sim.wake(nc.task)

    def shutdown(self):
        self.stop = True
        for nc in self.nodes.values():
            if nc.task is not None and nc.idle:
                self.sim.wake(nc.task)


def net_write(node, to, typ, msg, fid=None, direct=None):
    """RF24Network.write() with a fresh frame (mesh classes: write(to, type, msg))"""
    if isinstance(node, (RF24Network,)):
        h = RF24NetworkHeader(to, typ)
        if fid is not None:
            h.frame_id = fid
        f = RF24NetworkFrame(h, msg)
        if direct is None:
            return node.write(f)
        return node.write(f, direct)
    return node.write(to, typ, msg)
