"""Reference models for the network layer, written from docs/network_docs/topology.rst and from
TMRh20's RF24Network (the implementation this library documents itself as compatible with) - not from
the library's own mixins.py / structs.py."""
import itertools
import struct

MAX_FRAG = 24
FRAG_FIRST, FRAG_MORE, FRAG_LAST = 148, 149, 150
NETWORK_ACK = 193
NETWORK_POLL = 194
NETWORK_PING = 130
NETWORK_EXT_DATA = 131
MESH_ADDR_REQUEST, MESH_ADDR_RESPONSE = 195, 128
MESH_ADDR_LOOKUP, MESH_ADDR_RELEASE, MESH_ID_LOOKUP = 196, 197, 198
DEFAULT_ADDR = 0o4444
MULTICAST_ADDR = 0o100


def level(a):
    n = 0
    while a:
        a >>= 3
        n += 1
    return n


def parent(a):
    n = level(a)
    return a & ((1 << (3 * (n - 1))) - 1) if n else None


def is_anc(x, y):
    """x is an ancestor of (or equal to) y"""
    return (y & ((1 << (3 * level(x))) - 1)) == x


def valid_addr_doc(a):
    """documented predicate: 0, a reserved multicast address, or 1..4 octal digits each in 1..5"""
    if a in (0o100, 0o10, 0o1000):
        return True
    if a == 0:
        return True
    n = 0
    while a:
        d = a & 7
        if d < 1 or d > 5:
            return False
        a >>= 3
        n += 1
    return n <= 4


def all_addresses():
    out = [0]
    for lvl in range(1, 5):
        for digs in itertools.product(range(1, 6), repeat=lvl):
            a = 0
            for i, d in enumerate(digs):
                a |= d << (3 * i)
            out.append(a)
    return out


def next_hop(cur, dst):
    """tree routing: down towards a descendant, else up to the parent"""
    if is_anc(cur, dst):
        return dst & ((1 << (3 * (level(cur) + 1))) - 1)
    return parent(cur)


def path(src, dst):
    p = [src]
    while p[-1] != dst:
        p.append(next_hop(p[-1], dst))
        if len(p) > 12:
            raise ValueError("no path")
    return p


def child_pipe(child):
    """pipe of the parent on which a child transmits = the child's most significant octal digit"""
    return (child >> (3 * (level(child) - 1))) & 7


def lvl_addr(lvl):
    return 0 if not lvl else 1 << ((lvl - 1) * 3)


def pipe_address(node, pipe, multicast=True, prefix=0xCC, suffix=(0xC3, 0x3C, 0x33, 0xCE, 0x3E, 0xE3)):
    """TMRh20 RF24Network::pipe_address() (with and without RF24NETWORK_MULTICAST)"""
    out = bytearray([prefix] * 5)
    count = 1
    dec = node
    while dec:
        if not multicast or pipe != 0 or not node:
            out[count] = suffix[dec % 8]
        dec //= 8
        count += 1
    if not multicast or pipe != 0 or not node:
        out[0] = suffix[pipe]
    else:
        out[1] = suffix[count - 1]
    return bytes(out)


def node_pipes(addr, mc_level=None, multicast=True, prefix=0xCC, suffix=(0xC3, 0x3C, 0x33, 0xCE, 0x3E, 0xE3)):
    """the six physical addresses a node listens on: pipe 0 = its level's shared address (multicast on)"""
    out = []
    for p in range(6):
        if p == 0 and multicast:
            lv = level(addr) if mc_level is None else mc_level
            out.append(pipe_address(lvl_addr(lv), 0, multicast, prefix, suffix))
        else:
            out.append(pipe_address(addr, p, multicast, prefix, suffix))
    return out


# ---------------------------------------------------------------------- headers / fragments
def pack_header(frm, to, fid, typ, res):
    return struct.pack("<HHHBB", frm & 0xFFFF, to & 0xFFFF, fid & 0xFFFF, typ & 0xFF, res & 0xFF)


def unpack_header(buf):
    return struct.unpack("<HHHBB", bytes(buf[:8]))


def fragment(frm, to, fid, typ, msg):
    """reference fragmenter (TMRh20 numbering): list of on-air frames (header + slice)"""
    msg = bytes(msg)
    if len(msg) <= MAX_FRAG:
        return [pack_header(frm, to, fid, typ, 0) + msg]
    n = (len(msg) + MAX_FRAG - 1) // MAX_FRAG
    out = []
    for i in range(n):
        part = msg[i * MAX_FRAG:(i + 1) * MAX_FRAG]
        if i == n - 1:
            out.append(pack_header(frm, to, fid, FRAG_LAST, typ) + part)
        else:
            out.append(pack_header(frm, to, fid, FRAG_FIRST if i == 0 else FRAG_MORE, n - i) + part)
    return out


class TmrhReassembler:
    """Port of TMRh20 RF24Network::appendFragmentToFrame (single cache keyed by origin/id), used as the
    'TMRh20-style receiver' of C11."""

    def __init__(self):
        self.cache = None   # dict(frm, to, fid, res, msg)
        self.out = []

    def feed(self, frame):
        frm, to, fid, typ, res = unpack_header(frame)
        body = bytes(frame[8:])
        if typ == FRAG_FIRST:
            if res > 1 and res * MAX_FRAG <= 144 + MAX_FRAG:
                self.cache = {"frm": frm, "to": to, "fid": fid, "res": res, "msg": body}
                return True
            return False
        if typ in (FRAG_MORE, FRAG_LAST):
            c = self.cache
            if c is None or c["frm"] != frm or c["fid"] != fid:
                return False
            if typ == FRAG_LAST:
                if c["res"] - 1 != 1:
                    self.cache = None
                    return False
                c["msg"] += body
                self.out.append((frm, to, fid, res, c["msg"]))
                self.cache = None
                return True
            if c["res"] - 1 != res:
                return False
            c["res"] = res
            c["msg"] += body
            return True
        self.out.append((frm, to, fid, typ, body))
        return True
