"""C07 - after any network operation the node listens again on all its addresses.

Every node of the run is a unit under test: the invariant below is evaluated on the node's chip model at the return
of each of its own public calls (update() that forwarded or relayed included), whatever the call returned or raised.

Clause `listening` (post-call invariant):
  CONFIG.PWR_UP and PRIM_RX set, CE high, the radio in an RX session (or momentarily sending an auto-ACK);
  EN_RXADDR = 0x3F; RX_ADDR_P0..P5 = the reference physical addresses of the node's current logical address /
  multicast level / allow_multicast (TMRh20 translation, checks/netref.py); EN_AA = 0x3E; FEATURE.EN_DPL set and
  DYNPD = 0x3F.
Clause `hears` (end of run, functional confirmation): injector frames sent to the node's parent-facing pipe, a child
  pipe and the level address are stored by its radio.
"""
from nrfsim.core import SimAbort, stream, MS, US
from nrfsim.harness import Result
from nrfsim.mcu import World, Injector, random_mcu_knobs
from checks import netref
from checks.netcommon import Net
from checks.c05 import payload, rand_topology

PROP = "C07"
LEVEL = "exploration"
RULE = ("seeded scenarios. Network kind: parent-closed topology of 2..8 addresses of which a seeded subset is absent (next hop "
        "absent) or halted; histories (<= 12 calls, up to 3 in flight on different nodes) of write/send (direct, routed, to self, "
        "traffic_direct), multicast, node_address=, multicast_level=, MCU crash+restart (fresh object on the still running radio), pass-through radio attributes (interrupt_config, pa_level, channel, getters; power = False / listen = False by the application, after which the node's next transmission must leave it listening again), "
        "re-configuration of address prefix/suffix/allow_multicast followed by node_address re-assignment, "
        "fragmented and single-frame, ack and non-ack types; two targeted families on a fixed tree (a routed fragmented message that loses every copy of a later fragment after the first NETWORK_ACK came back; a router that has to pass its child's message on while it waits for a NETWORK_ACK that never arrives). Mesh "
        "kind: master + 1..3 mesh nodes with histories of renew_address, release_address, lookup_address, lookup_node_id, "
        "check_connection(both modes), send, write. Faults: packet/ACK loss ordinals, all ACKs of one node lost, NETWORK_ACK "
        "frames dropped, blackout windows, MCU jitter and stalls. The invariant is evaluated after every public call of every "
        "node. Non-trivial: some call transmitted; distinct = distinct abstract event sequences")
ASSUMPTIONS = ["reference physical-address translation = TMRh20 RF24Network::pipe_address (checks/netref.py)",
               "chip model: RX session = PWR_UP, PRIM_RX, CE high, settled or busy with an auto-ACK"]
CLAUSES = {"listening": "powered up in receive mode with CE high, six pipes on the node's own addresses, auto-ack 0x3E, dynamic payloads on",
           "hears": "never deaf to its parent, children or multicasts"}
PROBES = ["max_rt", "mcu_restart", "radio_power_cycled_by_application"]
SHRINK_KEYS = ("ops", "faults")
CHUNK = 6
MAX_INCONCLUSIVE = 0.03


def count(tier):
    return 1200 if tier == "quick" else 16000


def exhaustive(tier):
    return False


def make(i, base_seed, tier):
    seed = base_seed * 1_000_003 + i
    rng = stream(seed, "work")
    kr = stream(seed, "knobs")
    ar = stream(seed, "air")
    kind = "mesh" if rng.random() < 0.3 else "net"
    faults = []
    k = rng.random()
    if k < 0.4:
        p = rng.choice([0.02, 0.1, 0.3])
        faults = [{"n": n} for n in range(1500) if ar.random() < p]
    elif k < 0.55:
        t0 = ar.randrange(5, 400) * MS
        faults = [{"t0": t0, "t1": t0 + ar.randrange(5, 300) * MS}]
    elif k < 0.65:
        faults = [{"ack": False, "ptype": 193}]
    scn = {"seed": seed, "kind": kind, "faults": faults}
    if kind == "net":
        topo = rand_topology(rng, nmax=8)
        nodes = []
        for a in topo:
            state = "up"
            r = rng.random()
            if a != 0 and r < 0.15:
                state = "absent"
            elif r < 0.25:
                state = "halted"
            nodes.append({"addr": a, "cls": rng.choice(["net", "net", "router"]), "state": state,
                          "knobs": random_mcu_knobs(kr, fault=bool(faults))})
        up = [n["addr"] for n in nodes if n["state"] == "up" and n["cls"] == "net"]
        if not up:
            nodes[0]["state"], nodes[0]["cls"] = "up", "net"
            up = [nodes[0]["addr"]]
        if k >= 0.65 and k < 0.75 and len(topo) > 1:
            victim = rng.choice(topo)
            scn["faults"] = [{"src": "n%s" % victim, "ack": True}]
        ops = []
        for _ in range(rng.randint(1, 12)):
            who = rng.choice(up)
            o = rng.random()
            if o < 0.5:
                dst = rng.choice(topo + [who, 0o5555 & 0o7777, rng.choice(topo)])
                ops.append({"node": who, "op": "write", "dst": dst, "len": rng.choice([0, 1, 24, 25, 60, 144, rng.randint(0, 144)]),
                            "type": rng.choice([0, 65, 100, 127, rng.randint(0, 127)]), "seed": rng.getrandbits(20),
                            "direct": rng.choice([None, None, None, "parent", "dst"]), "api": rng.choice(["write", "send"]),
                            "async": rng.random() < 0.3})
            elif o < 0.7:
                ops.append({"node": who, "op": "multicast", "level": rng.choice([None, 0, 1, 2, 3, 4]), "len": rng.choice([0, 10, 24, 30, 100]),
                            "type": rng.randint(0, 127), "seed": rng.getrandbits(20), "async": rng.random() < 0.3})
            elif o < 0.8:
                ops.append({"node": who, "op": "multicast_level", "v": rng.randint(0, 4)})
            elif o < 0.9:
                ops.append({"node": who, "op": "node_address", "v": rng.choice([who, rng.choice(topo), 0o5, 0o15, 0o7, 0o4444])})
            elif o < 0.93:
                ops.append({"node": who, "op": "restart"})
            elif o < 0.96:
                # radio attributes the network classes pass through; none of them may take the node out of RX mode
                ops.append({"node": who, "op": "radio_cfg", "what": rng.choice(["interrupt_config", "pa_level", "channel_same", "getters", "power_off", "listen_off", "power_cycle"]),
                            "args": [rng.random() < 0.5 for _ in range(3)]})
                if ops[-1]["what"] in ("power_off", "listen_off") and rng.random() < 0.8:
                    # the application put the radio to sleep / took it out of RX mode itself; its next transmitting call has to
                    # leave the node listening again
                    dst = rng.choice([a for a in topo if a != who] or [0])
                    ops.append({"node": who, "op": rng.choice(["write", "write", "multicast"]), "dst": dst, "len": rng.choice([0, 5, 24, 40]), "type": rng.choice([1, 70]),
                                "seed": rng.getrandbits(20), "api": "write", "direct": None, "async": False, "level": None})
            elif o < 0.98:
                # documented way to apply new address bytes / multicast setting: change them, then re-assign node_address
                ops.append({"node": who, "op": "reconfigure", "prefix": rng.choice([0xCC, 0x5A, 0x11]), "suffix_rot": rng.randrange(6),
                            "multicast": rng.random() < 0.7})
            else:
                ops.append({"node": who, "op": "settle"})
        scn.update({"nodes": nodes, "ops": ops, "tx_timeout": rng.choice([5, 25]), "route_timeout": rng.choice([15, 75])})
        xr = stream(seed, "ext")
        fam = xr.random()
        if fam < 0.2:
            # two targeted families on a fixed tree 0 / 1, 2 / 11, 12 (all nodes running): (frag_abort) a routed fragmented message loses
            # every copy of its 2nd (or last) fragment after the first fragment's NETWORK_ACK came back;  (forward_while_waiting) a
            # router waits for a NETWORK_ACK that never arrives while its child's message has to be passed on through it.
            # Afterwards the usual seeded calls follow
            topo_ = [0, 0o1, 0o2, 0o11, 0o12]
            scn["nodes"] = [{"addr": a, "cls": "net", "state": "up", "knobs": random_mcu_knobs(kr, fault=False)} for a in topo_]
            rest = [o for o in ops if o["node"] in topo_ and o["op"] in ("write", "multicast", "multicast_level", "settle") and o.get("dst", 0) in topo_][:4]
            if fam < 0.1:
                n_ = xr.choice([30, 48, 50, 72, 100, 144])
                scn["faults"] = [{"src": "n%s" % 0o1, "ack": False, "ptype": 150 if n_ <= 48 else xr.choice([149, 150])}]
                first = [{"node": 0o1, "op": "write", "dst": 0o12, "len": n_, "type": xr.choice([0, 1, 65, 100]), "seed": xr.getrandbits(20), "direct": None,
                          "api": xr.choice(["write", "send"]), "async": False}]
                scn["family"] = "frag_abort"
            else:
                scn["faults"] = [{"ack": False, "ptype": 193}]
                first = [{"node": 0o1, "op": "write", "dst": 0o12, "len": xr.choice([0, 5, 24]), "type": xr.choice([65, 100, 127]), "seed": xr.getrandbits(20), "direct": None,
                          "api": "write", "async": True},
                         {"node": 0o11, "op": "write", "dst": xr.choice([0o2, 0o12, 0]), "len": xr.choice([0, 5, 24]), "type": xr.choice([1, 65, 100]), "seed": xr.getrandbits(20),
                          "direct": None, "api": "write", "async": True},
                         {"node": 0o1, "op": "settle"}]
                scn["family"] = "forward_while_waiting"
                scn["route_timeout"] = 75
            scn["ops"] = first + rest
    else:
        ids = rng.sample(range(1, 255), rng.randint(1, 3))
        scn["master_knobs"] = random_mcu_knobs(kr, fault=bool(faults))
        scn["mesh"] = [{"id": x, "knobs": random_mcu_knobs(kr, fault=bool(faults))} for x in ids]
        scn["master_up"] = rng.random() < 0.85
        ops = []
        for _ in range(rng.randint(1, 8)):
            who = rng.choice(ids)
            o = rng.random()
            if o < 0.35:
                ops.append({"node": who, "op": "renew", "timeout": rng.choice([0.3, 1.0, 2.5]), "async": rng.random() < 0.4})
            elif o < 0.45:
                ops.append({"node": who, "op": "release"})
            elif o < 0.6:
                ops.append({"node": who, "op": rng.choice(["lookup_address", "lookup_node_id"]), "v": rng.choice(ids + [0, 77, 0o1, 0o5])})
            elif o < 0.7:
                ops.append({"node": who, "op": "check_connection", "ping": rng.random() < 0.5})
            elif o < 0.9:
                ops.append({"node": who, "op": "mesh_send", "to": rng.choice(ids + [0]), "len": rng.choice([0, 10, 24, 60]), "type": rng.choice([1, 65, 100]),
                            "seed": rng.getrandbits(20)})
            else:
                ops.append({"node": who, "op": "mesh_write", "to": rng.choice([0, 0o1, 0o4, 0o14]), "len": rng.choice([0, 10, 30]), "type": rng.choice([1, 70]),
                            "seed": rng.getrandbits(20)})
        scn["ops"] = ops
    return scn


class Checker:
    def __init__(self, res):
        self.res = res
        self.calls = 0
        self.seen = set()

    def __call__(self, nc, name):
        self.calls += 1
        if getattr(nc, "user_off", False):
            # the application itself powered the radio down / left RX mode through a pass-through attribute: nothing is owed until
            # its next transmitting call or address assignment, which has to resume listening
            n0 = name.split(":")[0]
            if len(nc.radio.cycles) > getattr(nc, "cyc_at_off", 0) or n0 == "reconfigure" or (n0 == "node_address" and getattr(nc, "assign_valid", False)):
                # the node has transmitted since (or re-opened its pipes): that call must have left it listening
                nc.user_off = False
                self.res.count("resumed_after_user_switch_off")
            else:
                return
        r = nc.radio
        node = nc.node
        bad = []
        cfg = r.r[0]
        if (cfg & 3) != 3:
            bad.append("CONFIG=0x%02X (PWR_UP/PRIM_RX)" % cfg)
        if not r.ce:
            bad.append("CE low")
        if (cfg & 3) == 3 and r.ce and r.rx_since is None and not r.acking:
            bad.append("not in an RX session")
        if r.r[2] != 0x3F:
            bad.append("EN_RXADDR=0x%02X" % r.r[2])
        if r.r[1] != 0x3E:
            bad.append("EN_AA=0x%02X" % r.r[1])
        if not (r.feat & 4) or r.dynpd != 0x3F:
            bad.append("FEATURE=0x%02X DYNPD=0x%02X" % (r.feat, r.dynpd))
        want = netref.node_pipes(node.node_address, node.multicast_level, bool(node.allow_multicast),
                                 node.address_prefix[0], tuple(node.address_suffix))
        got = [r.pipe_addr(p) for p in range(6)]
        if r.aw != 5:
            bad.append("address width %d" % r.aw)
        for p in range(6):
            if got[p] != want[p]:
                bad.append("pipe %d on %s, expected %s" % (p, got[p].hex(), want[p].hex()))
        if bad:
            kinds = ",".join(sorted({b.split()[0].split("=")[0] for b in bad}))
            key = (nc.key, name, kinds)
            if key not in self.seen:
                self.seen.add(key)
                self.res.add("listening", {"kind": kinds, "call": name.split(":")[0], "cls": nc.cls},
                             "node %s (%s, address %o) after %s: %s" % (nc.key, nc.cls, node.node_address, name, "; ".join(bad)))


def run(scn):
    res = Result()
    w = World(scn["seed"], plan=scn.get("faults"), max_events=4_000_000, max_time=180_000 * MS)
    chk = Checker(res)
    net = Net(w, post_call=chk)
    try:
        if scn["kind"] == "net":
            _run_net(scn, w, net, res)
        else:
            _run_mesh(scn, w, net, res)
        res.count("post_call_checks", chk.calls)
    except SimAbort:
        pass
    finally:
        res.absorb_world(w)
        w.close()
    return res


def _hears(w, net, res, keys):
    """functional confirmation with injector frames (harness drives nothing else at this point)"""
    inj = None
    for k in keys:
        nc = net.nodes[k]
        r = nc.radio
        if (r.r[0] & 3) != 3 or not r.ce:
            continue  # already reported by `listening`
        if inj is None:
            inj = Injector(w, "INJ", channel=r.r[5], rate=1, aw=5, crc=2, esb=True, dpl=True)
        a = nc.node.node_address
        want = netref.node_pipes(a, nc.node.multicast_level, bool(nc.node.allow_multicast), nc.node.address_prefix[0], tuple(nc.node.address_suffix))
        for p in (0, 1, 5):
            r.rx_fifo.clear()
            # unique per node and pipe: the radio's PID filter must never take it for a repetition
            frame = netref.pack_header(0o3333, 0o7777 if p else 0o100, 1, 250, 0) + bytes([p]) + repr(k).encode()[:12]
            inj.send(want[p], frame, want_ack=False)
            if not any(d == frame for (_, d) in r.rx_fifo):
                res.add("hears", {"kind": "deaf_on_pipe", "pipe": min(p, 1)}, "node %s did not receive an injector frame sent to its pipe %d address %s" % (k, p, want[p].hex()))
            r.rx_fifo.clear()


def _run_net(scn, w, net, res):
    sim = w.sim
    for nd in scn["nodes"]:
        if nd["state"] == "absent":
            continue

        def setup(node):
            node.tx_timeout = scn.get("tx_timeout", 25)
            node.route_timeout = scn.get("route_timeout", 75)
        net.add(nd["addr"], nd["cls"], nd["addr"], knobs=nd["knobs"], setup=setup)
    net.start()
    sim.advance(3 * MS)
    for nd in scn["nodes"]:
        if nd["state"] == "halted" and nd["addr"] in net.nodes:
            net.halt(nd["addr"])
    pending = []
    for op in scn["ops"]:
        k = op["node"]
        if k not in net.nodes or not net.nodes[k].running:
            continue
        o = op["op"]
        if o == "settle":
            net.wait_quiet(quiet=5 * MS, timeout=500 * MS)
            continue

        def do(node, op=op):
            from circuitpython_nrf24l01.network.structs import RF24NetworkHeader, RF24NetworkFrame
            if op["op"] == "write":
                data = payload(op["seed"], op["len"])
                h = RF24NetworkHeader(op["dst"], op["type"])
                if op["api"] == "send":
                    return node.send(h, data)
                if op["direct"] == "parent":
                    return node.write(RF24NetworkFrame(h, data), node.parent if node.node_address else 0o1)
                if op["direct"] == "dst":
                    return node.write(RF24NetworkFrame(h, data), op["dst"])
                return node.write(RF24NetworkFrame(h, data))
            if op["op"] == "multicast":
                return node.multicast(payload(op["seed"], op["len"]), op["type"], op["level"])
            if op["op"] == "radio_cfg":
                import contextlib, io
                if op["what"] == "interrupt_config":
                    node.interrupt_config(*op["args"])
                elif op["what"] == "pa_level":
                    node.pa_level = -12
                elif op["what"] == "channel_same":
                    node.channel = node.channel
                elif op["what"] == "power_cycle":
                    # the application puts the radio to sleep for a while and wakes it up again: awake, the node is owed to be listening
                    # from its next network call on (nothing but the PWR_UP bit was touched)
                    import circuitpython_nrf24l01.rf24 as rm_
                    node.power = False
                    rm_.time.sleep(0.003)
                    node.power = True
                    rm_.time.sleep(0.002)
                    sim.count("radio_power_cycled_by_application")
                elif op["what"] in ("power_off", "listen_off"):
                    nc_ = net.nodes[op["node"]]
                    nc_.user_off, nc_.cyc_at_off = True, len(nc_.radio.cycles)
                    if op["what"] == "power_off":
                        node.power = False
                    else:
                        node.listen = False
                else:
                    with contextlib.redirect_stdout(io.StringIO()):
                        node.print_pipes()
                    node.address(0), node.last_tx_arc, node.fifo(False), node.get_auto_retries(), node.crc, node.data_rate, node.power, node.listen
                return None
            if op["op"] == "reconfigure":
                base = [0xC3, 0x3C, 0x33, 0xCE, 0x3E, 0xE3]
                if op["suffix_rot"]:
                    # new suffix bytes, unique to this node: it leaves the others' address space (a mere re-ordering of the shared
                    # suffix bytes on one node would make its pipes coincide with other nodes' pipes - a mis-configured network)
                    j = [nd["addr"] for nd in scn["nodes"]].index(op["node"]) % 16
                    base = [0x20 + j, 0x40 + j, 0x60 + j, 0x80 + j, 0xA0 + j, 0xD0 + j]
                node.address_prefix = bytearray([op["prefix"]])
                node.address_suffix = bytearray(base[op["suffix_rot"]:] + base[:op["suffix_rot"]])
                node.allow_multicast = op["multicast"]
                node.node_address = node.node_address
                return None
            if op["op"] == "restart":
                # crash + restart of the MCU at this point of the history: the radio keeps its registers, FIFOs, CE and mode
                return net.restart(net.nodes[op["node"]])
            if op["op"] == "multicast_level":
                node.multicast_level = op["v"]
            elif op["op"] == "node_address":
                net.nodes[op["node"]].assign_valid = netref.valid_addr_doc(op["v"])   # (an invalid value is ignored by the setter)
                node.node_address = op["v"]
            return None
        c = net.post(k, o, do)
        pending.append(c)
        if not op.get("async") or len([p for p in pending if not p.done]) >= 3:
            for p in pending:
                net.wait(p, timeout=10_000 * MS)
            pending = [p for p in pending if not p.done]
    for p in pending:
        net.wait(p, timeout=10_000 * MS)
    net.wait_quiet(quiet=5 * MS, timeout=1500 * MS)
    res.nontrivial = len(w.air.trace) > 0
    net.shutdown()
    sim.advance(5 * MS)
    w.air.blackout = False
    w.plan.rules = []
    _hears(w, net, res, [k for k, nc in net.nodes.items() if nc.running])
    res.sample = {"kind": "net", "nodes": [(oct(n["addr"]), n["cls"], n["state"]) for n in scn["nodes"]],
                  "ops": [(oct(o["node"]), o["op"], o.get("dst"), o.get("len")) for o in scn["ops"]][:10], "faults": len(scn["faults"])}


def _run_mesh(scn, w, net, res):
    sim = w.sim
    net.add("M", "master", 0, knobs=scn["master_knobs"])
    for m in scn["mesh"]:
        net.add(m["id"], "mesh", m["id"], knobs=m["knobs"])
    net.start()
    sim.advance(3 * MS)
    if not scn.get("master_up", True):
        net.halt("M")
    pending = []
    for op in scn["ops"]:
        k = op["node"]
        if k not in net.nodes:
            continue

        def do(node, op=op):
            o = op["op"]
            if o == "renew":
                return node.renew_address(op["timeout"])
            if o == "release":
                return node.release_address()
            if o == "lookup_address":
                return node.lookup_address(op["v"])
            if o == "lookup_node_id":
                return node.lookup_node_id(op["v"])
            if o == "check_connection":
                return node.check_connection(2, op["ping"])
            if o == "mesh_send":
                return node.send(op["to"], op["type"], payload(op["seed"], op["len"]))
            if o == "mesh_write":
                return node.write(op["to"], op["type"], payload(op["seed"], op["len"]))
        c = net.post(k, op["op"], do)
        pending.append(c)
        if not op.get("async"):
            for p in pending:
                net.wait(p, timeout=30_000 * MS)
            pending = []
    for p in pending:
        net.wait(p, timeout=30_000 * MS)
    net.wait_quiet(quiet=5 * MS, timeout=1500 * MS)
    res.nontrivial = len(w.air.trace) > 0
    net.shutdown()
    sim.advance(5 * MS)
    w.plan.rules = []
    _hears(w, net, res, [k for k, nc in net.nodes.items() if nc.running])
    res.sample = {"kind": "mesh", "ids": [m["id"] for m in scn["mesh"]], "master_up": scn.get("master_up"),
                  "ops": [(o["node"], o["op"]) for o in scn["ops"]], "faults": len(scn["faults"])}


def same_class(a, b):
    return (a.get("kind"), a.get("call")) == (b.get("kind"), b.get("call"))
