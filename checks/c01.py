"""C01 - link payload integrity: what send()/write() is given is what the peer's read() returns.

Clauses (each tied to a sentence of the property statement):
  rejects    dynamic payloads on: len 0 or > 32 raises ValueError, no payload upload, no air packet
  loaded     the W_TX_PAYLOAD(_NOACK) command carries the payload, zero-padded/truncated to the
             static length when dynamic payloads are off
  delivered  the peer's read() results are the payloads, in order, exactly once, each announced by
             available()/pipe/any() with the addressed pipe and its length; RX FIFO empty at the end
  result     on a working link send() reports success for every payload (premise check, so that a
             'delivered' failure is never blamed on a legitimately failed transmission)
  unaliased  the caller's buffer object has the same type, length and bytes after the call
"""
from nrfsim.core import SimAbort, stream, MS, US
from nrfsim.harness import Result
from nrfsim.mcu import World, random_mcu_knobs, Injector
from checks import common
from checks.common import hx, unhx

PROP = "C01"
LEVEL = "exploration"
RULE = ("seeded scenarios: a compatible TX/RX configuration (channel, rate, CRC, address width, pipe, "
        "dynamic/static length, ask_no_ack, SPI back-end, chip variant) + 1..12 payload operations "
        "(send, send(list), write+poll; lengths 0..40; bytes/bytearray) + explicit ACK/packet-loss rules on a "
        "strict subset of attempts; role switching (turn) between the two radios; in a third of the runs one or both sides "
        "were configured for a different link first; in a third a send meets a dead medium (blackout) and the transmitter "
        "then re-targets to a second pipe of the peer; thorough adds a receiver task draining at seeded instants and the full "
        "static-length x payload-length grid. Non-trivial: at least one payload crossed the air; distinct = "
        "distinct abstract event sequences (kind,node) of air/chip/API events")
ASSUMPTIONS = ["chip/air model decisions M1, M3, M4, M8 (DESIGN.md section 3)",
               "compatible pairs keep the default auto-retry count on both ends (ESB framing on both)",
               "faults leave at least one attempt and its ACK intact (the property's premise is a working link)"]
CLAUSES = {"rejects": "ValueError before anything reaches the radio", "loaded": "bytes uploaded to the TX FIFO",
           "delivered": "byte-for-byte, exactly once, in order, right pipe", "result": "premise: working link",
           "unaliased": "caller's buffer object is never modified"}
PROBES = ["pid_duplicate_dropped", "send_on_dead_medium", "retargeted", "burst_payloads_refused", "turned_with_unread_payloads", "ack_payloads_armed", "healing_send_succeeded", "crc_changed_at_run_time", "readdressed_under_traffic"]   # premise_broken_by_loss_pattern is rare by design
SHRINK_KEYS = ("ops", "faults")
CHUNK = 40


def count(tier):
    return 3000 if tier == "quick" else 60000


def exhaustive(tier):
    return False


def _grid_case(i):
    """thorough: every (static length 1..32) x (payload length 0..40) pair once."""
    sl = 1 + (i // 41) % 32
    pl = i % 41
    return sl, pl


def make(i, base_seed, tier):
    seed = base_seed * 1_000_003 + i
    rng = stream(seed, "work")
    grid = tier == "thorough" and i < 32 * 41
    cfg = common.rand_link_cfg(rng)
    ops = []
    if grid:
        sl, pl = _grid_case(i)
        cfg["dyn"] = False
        cfg["static_len"] = sl
        data = common.rand_payload(rng, pl)
        ops.append({"op": "send", "bufs": [hx(data)], "types": [rng.choice(["bytes", "bytearray"])],
                    "ask_no_ack": False, "list": False})
    else:
        for _ in range(rng.randint(1, 12 if tier == "thorough" else 8)):
            k = rng.random()
            nb = 1
            as_list = False
            if k < 0.25:
                as_list = True
                nb = rng.randint(1, 3)
            bufs, types = [], []
            for _ in range(nb):
                n = common.rand_len(rng, 0, 40)
                if as_list and cfg["dyn"] and (n == 0 or n > 32):
                    n = rng.randint(1, 32)
                bufs.append(hx(common.rand_payload(rng, n)))
                types.append(rng.choice(["bytes", "bytearray"]))
            op = {"op": "write" if (k >= 0.25 and k < 0.4) else "send", "bufs": bufs, "types": types,
                  "ask_no_ack": rng.random() < 0.25, "list": as_list}
            if op["op"] == "write":
                op["list"] = False
            ops.append(op)
            if rng.random() < 0.4:
                ops.append({"op": "drain"})
    # reverse direction (role switching): the transmitter also owns a reading pipe (pipe 0 half of the time)
    cfg["rpipe"] = rng.choice([0, 0, 1, 2, 5])
    rp1 = bytes(rng.getrandbits(8) for _ in range(5))
    if cfg["rpipe"] < 2:
        raddr = bytes(rng.getrandbits(8) for _ in range(5))
        if cfg["rpipe"] == 1:
            rp1 = raddr
    else:
        raddr = bytes([rp1[0] ^ 0x5A]) + rp1[1:]
    cfg["raddr"], cfg["rp1"] = raddr.hex(), rp1.hex()
    if not grid and rng.random() < 0.5:
        k = 0
        while k < len(ops):
            if ops[k]["op"] != "drain" and rng.random() < 0.3:
                ops.insert(k, {"op": "turn"})
                k += 1
            k += 1
    xr = stream(seed, "ext")
    if not grid and xr.random() < 0.35:
        # configuration history: one or both sides were configured for a different link before
        other = common.rand_link_cfg(xr)
        keep = {k: other[k] for k in ("channel", "rate", "aw", "crc", "auto_ack", "dyn", "static_len", "allow_ask_no_ack")}
        cfg["pre"] = {"tx": keep if xr.random() < 0.7 else None, "rx": keep if xr.random() < 0.5 else None}
    if not grid and cfg["auto_ack"] and not any(o["op"] == "turn" for o in ops) and xr.random() < 0.35:
        # a send that meets a dead medium (all attempts lost), after which the transmitter re-targets to another pipe
        # of the peer: nothing of the failed payload may ever come out of the peer
        used = {unhx(cfg["addr"])[0], unhx(cfg["p1"])[0]}
        b0 = xr.getrandbits(8)
        while b0 in used:
            b0 = xr.getrandbits(8)
        cand = [q for q in range(6) if q != cfg["pipe"] and not (q == 1 and cfg["pipe"] >= 2)]
        q = xr.choice(cand)
        if q >= 2:
            a2 = bytes([b0]) + unhx(cfg["p1"])[1:]
        else:
            a2 = bytes([b0]) + bytes(xr.getrandbits(8) for _ in range(4))
        cfg["alt"] = {"pipe": q, "addr": a2.hex()}
        sends = [k for k, o in enumerate(ops) if o["op"] in ("send", "write")]
        for k in sorted(xr.sample(sends, min(len(sends), xr.randint(1, 2))), reverse=True):
            n = xr.randint(1, 32)
            dead = {"op": "send", "bufs": [hx(common.rand_payload(xr, n))], "types": [xr.choice(["bytes", "bytearray"])],
                    "ask_no_ack": False, "list": False, "dead": True}
            # (always re-targeted afterwards: were the failed payload to come out later, it would do so on a pipe it was not sent to)
            ops[k:k] = [dead] if xr.random() < 0.8 else [{"op": "retarget"}]
    faults = []
    if cfg["auto_ack"] and rng.random() < 0.5:
        for op in ops:
            op["ask_no_ack"] = False
        faults = common.drop_ordinals(stream(seed, "air"), 120, rng.choice([0.05, 0.15, 0.3]), max_run=4)
    if not grid and not faults:
        yr = stream(seed, "ext2")
        k_ = yr.random()
        if k_ < 0.12 and cfg["auto_ack"]:      # (with acknowledgements the link itself paces the sender when the peer's FIFO is full)
            # streaming: bursts of write() calls faster than the radio drains its 3-level TX FIFO (what write() accepted must arrive)
            for _ in range(yr.randint(1, 2)):
                pos = yr.randint(0, len(ops))
                n_b = yr.randint(4, 8)
                ops.insert(pos, {"op": "burst", "bufs": [hx(common.rand_payload(yr, yr.randint(1, 32))) for _ in range(n_b)],
                                 "types": [yr.choice(["bytes", "bytearray"]) for _ in range(n_b)], "ask_no_ack": False, "list": False})
        elif k_ < 0.27 and cfg["dyn"] and cfg["auto_ack"] and any(o["op"] == "turn" for o in ops):
            # ACK payloads: the receiver arms payloads for its acknowledgements; those still unused when it turns transmitter must
            # not go out as ordinary payloads
            cfg["ackpl"] = True
            for op in ops:
                if "ask_no_ack" in op:
                    op["ask_no_ack"] = False
            for pos in sorted(yr.sample(range(len(ops) + 1), min(len(ops) + 1, yr.randint(1, 4))), reverse=True):
                ops.insert(pos, {"op": "load_ack", "bufs": [hx(common.rand_payload(yr, yr.randint(1, 32))) for _ in range(yr.randint(1, 3))]})
        elif k_ < 0.42 and cfg["auto_ack"] and any(o["op"] == "turn" for o in ops):
            # a receiver that turns transmitter with unread payloads in its RX FIFO: its send(send_only=True) calls - also with forced
            # retries after a first cycle that met a dead medium - leave them alone
            for op in ops:
                if op["op"] == "turn" and yr.random() < 0.7:
                    op["keep"] = True
                elif op["op"] == "send" and not op["list"] and yr.random() < 0.6:
                    op["ask_no_ack"] = False
                    op["so"] = True
                    op["fr"] = yr.choice([0, 1, 1, 2])
                    if op["fr"] and yr.random() < 0.7:
                        op["heal_ms"] = yr.choice([1, 5, 20, 35, 50])
        elif k_ < 0.55 and cfg["tx"]["cls"] == "full" and cfg["rx"]["cls"] == "full":
            # run-time re-configuration: both sides change the CRC length while in their roles; afterwards only one of them leaves
            # and re-enters its mode (a receiver that stops listening for a moment, a transmitter that listens for a moment)
            for _ in range(yr.randint(1, 2)):
                ops.insert(yr.randint(0, len(ops)), {"op": "reconf", "crc": yr.choice([1, 2] if cfg["auto_ack"] else [0, 1, 2]),
                                                     "excursion": yr.choice(["rx", "tx", "rx", "tx", None]), "order": yr.choice(["tr", "rt"])})
        elif k_ < 0.68 and cfg["auto_ack"] and cfg["rx"]["cls"] == "full" and "alt" not in cfg:
            # run-time re-addressing: the listening receiver opens a closed pipe (which still holds an older address) on a new address
            # while a third radio keeps transmitting to the old one; afterwards that radio sends to the new address
            p1_ = unhx(cfg["p1"])
            free = [b_ for b_ in range(256) if b_ not in (unhx(cfg["addr"])[0], p1_[0])]
            q = yr.choice([q_ for q_ in range(1, 6) if q_ != cfg["pipe"] and not (q_ == 1 and cfg["pipe"] >= 2)])
            l0, l1 = yr.sample(free, 2)
            if q >= 2:
                old, new = bytes([l0]) + p1_[1:], bytes([l1]) + p1_[1:]
            else:
                old, new = (bytes([l_]) + bytes(yr.getrandbits(8) for _ in range(4)) for l_ in (l0, l1))
            ops.insert(yr.randint(0, len(ops)), {"op": "readdress", "pipe": q, "old": old.hex(), "new": new.hex(), "lead_us": yr.randint(0, 900),
                                                 "plen": yr.randint(1, 32), "after": [hx(common.rand_payload(yr, yr.randint(1, 32))) for _ in range(yr.randint(0, 2))]})
    zr = stream(seed, "ext3")
    if not grid and not faults and not any(o["op"] in ("turn", "readdress") for o in ops):
        if zr.random() < 0.15:
            # the receiving node's MCU restarts (watchdog, brown-out of the MCU only): its radio kept power and registers, the
            # application builds a new driver object and configures the link as before
            ops.insert(zr.randint(0, len(ops)), {"op": "restart"})
        if cfg["dyn"] and cfg["auto_ack"] and cfg["tx"]["cls"] == "full" and cfg["rx"]["cls"] == "full" and "alt" not in cfg and zr.random() < 0.15:
            # a node that has an unread payload in its radio answers with send(send_only=True) while its peer acknowledges with an
            # ACK payload: both end up in its RX FIFO, in that order, and send() says True
            ops.insert(zr.randint(0, len(ops)), {"op": "so_ackpl", "d1": hx(common.rand_payload(zr, zr.randint(1, 32))), "d2": hx(common.rand_payload(zr, zr.randint(1, 32))),
                                                 "ap": hx(common.rand_payload(zr, zr.randint(1, 32)))})
    if not grid and zr.random() < 0.25:
        # the application of either side touches its radio at run time between payloads - things that change nothing about the link:
        # a power-saving nap, another PA level, its interrupt mask
        for _ in range(zr.randint(1, 2)):
            ops.insert(zr.randint(0, len(ops)), {"op": "tweak", "side": zr.choice(["rx", "rx", "tx"]), "what": zr.choice(["nap", "nap", "pa_level", "irq", "irq"]),
                                                 "v": zr.choice([-18, -12, -6, 0]), "args": [zr.random() < 0.5 for _ in range(3)], "ms": zr.choice([0, 1, 3])})
    mode = "conc" if (tier == "thorough" and not grid and rng.random() < 0.4) else "seq"
    kr = stream(seed, "knobs")
    scn = {"seed": seed, "cfg": cfg, "ops": ops, "faults": faults, "mode": mode,
           "tx_knobs": random_mcu_knobs(kr, stalls=False), "rx_knobs": random_mcu_knobs(kr, stalls=False)}
    scn["rx_knobs"]["poll_us"] = min(scn["rx_knobs"]["poll_us"], 500)
    return scn


def _mk(buf_hex, typ):
    b = unhx(buf_hex)
    return bytearray(b) if typ == "bytearray" else b


def run(scn):
    res = Result()
    cfg = scn["cfg"]
    w = World(scn["seed"], plan=scn.get("faults"), max_events=400_000, max_time=30_000 * MS)
    try:
        _run(scn, cfg, w, res)
    except SimAbort:
        pass
    finally:
        res.absorb_world(w)
        w.close()
    return res


def _run(scn, cfg, w, res):
    sim = w.sim
    tx_mcu = w.make_mcu("T", **scn["tx_knobs"])
    rx_mcu = w.make_mcu("R", **scn["rx_knobs"])
    sim.main.mcu = tx_mcu
    conc = scn.get("mode") == "conc"
    rt, tx, rr, rx = common.setup_link(w, cfg, tx_mcu, rx_mcu if conc else tx_mcu)
    rt.spi_log = []
    rr.spi_log = []
    fwd = True   # direction of traffic; a "turn" op swaps the roles of the two radios
    fwd_addr = unhx(cfg["addr"])[: cfg["aw"] if cfg.get("trunc_addr") else 5]
    rev_addr = None
    if "raddr" in cfg:
        n_ = cfg["aw"] if cfg.get("trunc_addr") else 5
        rev_addr = unhx(cfg["raddr"])[:n_]
        # the transmitter's own reading pipe, opened while in TX mode (as an application would at start-up)
        if cfg["rpipe"] >= 2:
            tx.open_rx_pipe(1, unhx(cfg["rp1"])[:n_])
        tx.open_rx_pipe(cfg["rpipe"], rev_addr)
        tx.open_tx_pipe(fwd_addr)
    if cfg.get("ackpl"):
        tx.ack = True
        rx.ack = True
    expected = []   # payloads that must come out of the peer, in order
    got = []        # (pipe, any, bytes)
    kept = {}       # id(driver) -> expected entries left unread in its RX FIFO when it turned transmitter
    state = {"stop": False}

    def drain_all(limit=None, drv=None):
        n = 0
        rx = drv if drv is not None else cur_rx()
        while rx.available():
            p = rx.pipe
            ln = rx.any()
            data = rx.read()
            got.append((p, ln, None if data is None else bytes(data)))
            n += 1
            if limit is not None and n >= limit:
                break
            if n > 64:
                res.add("delivered", {"kind": "endless_rx"}, "available() stays True after 64 reads")
                break

    def cur_rx():
        return rx

    rx_task = None
    if conc:
        def rx_loop():
            while not state["stop"]:
                drain_all()
                sim.advance(rx_mcu.poll_ns)
        rx_task = sim.spawn("rx", rx_loop, rx_mcu)

    def retarget(cur):
        n_ = cfg["aw"] if cfg.get("trunc_addr") else 5
        if cur == cfg["pipe"]:
            cur = cfg["alt"]["pipe"]
            tx.open_tx_pipe(unhx(cfg["alt"]["addr"])[:n_])
        else:
            cur = cfg["pipe"]
            tx.open_tx_pipe(fwd_addr)
        sim.log("call", "T", "retarget", cur)
        sim.count("retargeted")
        return cur

    outstanding = 0
    premise_broken = False
    cur_pipe = cfg["pipe"]
    stale = set()     # drivers whose last send() failed: its payload is still in their TX FIFO (documented, for resend())
    for op in scn["ops"]:
        if op["op"] == "retarget":
            if conc or not fwd or not cfg.get("alt"):
                continue
            cur_pipe = retarget(cur_pipe)
            continue
        if op["op"] == "turn":
            if conc or rev_addr is None:
                continue
            if op.get("keep") and not cfg.get("ackpl") and 0 < outstanding <= 3 and id(tx) not in kept:
                # the application leaves what it has received so far in the FIFO for later
                kept[id(rx)] = expected[-outstanding:]
                del expected[-outstanding:]
                sim.count("turned_with_unread_payloads")
            else:
                drain_all()
            outstanding = 0
            if cfg.get("ackpl"):
                tx.flush_rx()                # ACK payloads the old transmitter did not read: the application drops them
            sim.log("call", "T" if fwd else "R", "turn")
            tx.listen = True                 # old transmitter starts listening on its own pipe
            rx.listen = False                # old receiver becomes the transmitter
            rx.open_tx_pipe(rev_addr if fwd else fwd_addr)
            tx, rx, rt, rr = rx, tx, rr, rt
            fwd = not fwd
            if id(rx) in kept:
                back = kept.pop(id(rx))      # ... and finds them again, in front of whatever arrives next
                expected.extend(back)
                outstanding = len(back)
            continue
        if op["op"] == "tweak":
            if conc or id(tx) in stale:
                continue
            drain_all()
            outstanding = 0
            d_ = rx if op["side"] == "rx" else tx
            sim.log("call", "R" if op["side"] == "rx" else "T", "tweak", op["what"])
            if op["what"] == "nap":
                d_.power = False
                sim.advance(op["ms"] * MS)
                d_.power = True
                sim.advance(2 * MS)       # (the radio's power-up time)
            elif op["what"] == "pa_level":
                d_.pa_level = op["v"]
            elif hasattr(d_, "interrupt_config"):
                d_.interrupt_config(*op["args"])
            sim.count("radio_touched_at_run_time")
            continue
        if op["op"] == "restart":
            if conc or not fwd or kept or id(tx) in stale:
                continue
            drain_all()
            outstanding = 0
            sim.log("call", "R", "restart")
            lite_ = cfg["rx"]["cls"] == "lite"
            try:
                rx = (common.RF24Lite if lite_ else common.RF24)(*w.bus(rr, mcu=rx_mcu if conc else tx_mcu, backend=cfg["rx"]["backend"]))
                common.apply_common(rx, cfg, lite_)
                if state.get("crc") is not None and not lite_:
                    rx.crc = state["crc"]      # (the link's CRC length was changed at run time: the application configures what is in force)
                if cfg.get("ackpl"):
                    rx.ack = True
                n_ = cfg["aw"] if cfg.get("trunc_addr") else 5
                if cfg["pipe"] >= 2:
                    rx.open_rx_pipe(1, unhx(cfg["p1"])[:n_])
                rx.open_rx_pipe(cfg["pipe"], unhx(cfg["addr"])[:n_])
                if cfg.get("alt"):
                    if cfg["alt"]["pipe"] >= 2 and cfg["pipe"] < 2 and cfg["pipe"] != 1:
                        rx.open_rx_pipe(1, unhx(cfg["p1"])[:n_])
                    rx.open_rx_pipe(cfg["alt"]["pipe"], unhx(cfg["alt"]["addr"])[:n_])
                rx.listen = True
            except SimAbort:
                raise
            except Exception as e:
                res.add("result", {"kind": "restart_raised", "exc": type(e).__name__}, "a new driver object on the running radio raised %r" % (e,))
                return
            sim.count("receiver_mcu_restarted" + ("" if cfg["rx"]["plus"] else "_nonplus"))
            continue
        if op["op"] == "so_ackpl":
            if conc or not fwd or kept or rev_addr is None or id(tx) in stale or not (cfg["dyn"] and cfg["auto_ack"]):
                continue
            drain_all()
            outstanding = 0
            sim.log("call", "T", "so_ackpl")
            d1, d2, ap = unhx(op["d1"]), unhx(op["d2"]), unhx(op["ap"])
            if not cfg.get("ackpl"):
                tx.ack = True
                rx.ack = True
            r1 = tx.send(d1)                         # arrives at the peer and stays unread there
            tx.flush_rx()
            tx.listen = True                         # the old transmitter listens on its own pipe, an ACK payload armed
            tx.load_ack(ap, cfg["rpipe"])
            rx.listen = False
            rx.open_tx_pipe(rev_addr)
            r2 = rx.send(d2, send_only=True)
            got_b = []
            rx.listen = True
            for _ in range(6):
                if not rx.available():
                    break
                p_ = rx.pipe
                x_ = rx.read()
                got_b.append((p_, None if x_ is None else bytes(x_)))
            got_a = []
            for _ in range(6):
                if not tx.available():
                    break
                p_ = tx.pipe
                x_ = tx.read()
                got_a.append((p_, None if x_ is None else bytes(x_)))
            tx.listen = False
            tx.open_tx_pipe(fwd_addr if cur_pipe == cfg["pipe"] else unhx(cfg["alt"]["addr"])[: cfg["aw"] if cfg.get("trunc_addr") else 5])
            if not cfg.get("ackpl"):
                tx.ack = False
                rx.ack = False
            sim.count("send_only_with_unread_payload_and_ack_payload")
            res.nontrivial = True
            if r1 is False or r1 is None:
                res.add("result", {"kind": "send_reported_failure"}, "send() on a working link returned %r" % (r1,))
                return
            if r2 is not True:
                res.add("result", {"kind": "send_only_result", "type": type(r2).__name__},
                        "send(send_only=True) returned %r; an unread payload %s and the peer's ACK payload %s belong in the RX FIFO" % (r2, hx(d1)[:16], hx(ap)[:16]))
            if got_b != [(cur_pipe, d1), (0, ap)]:
                res.add("delivered", {"kind": "missing_payload" if (cur_pipe, d1) not in got_b else "wrong_order_or_extra", "step": "so_ackpl"},
                        "after send(send_only=True) the node's read() gave %r, expected the unread payload (pipe %d, %s) and then the ACK payload (pipe 0, %s)"
                        % ([(p_, hx(x_)[:16] if x_ is not None else None) for p_, x_ in got_b], cur_pipe, hx(d1)[:16], hx(ap)[:16]))
            if got_a != [(cfg["rpipe"], d2)]:
                res.add("delivered", {"kind": "reverse_payload", "step": "so_ackpl"}, "the peer read %r, expected (pipe %d, %s)"
                        % ([(p_, hx(x_)[:16] if x_ is not None else None) for p_, x_ in got_a], cfg["rpipe"], hx(d2)[:16]))
            if res.violations:
                return
            continue
        if op["op"] == "reconf":
            if conc:
                continue
            drain_all()
            outstanding = 0
            sim.log("call", "T", "reconf", op["crc"], op["excursion"])
            for side in op["order"]:
                (tx if side == "t" else rx).crc = op["crc"]
            state["crc"] = op["crc"]
            if op["excursion"] == "rx":
                rx.listen = False
                sim.advance(int(0.4 * MS))
                rx.listen = True
            elif op["excursion"] == "tx" and id(tx) not in stale:
                tx.listen = True
                sim.advance(int(0.4 * MS))
                tx.listen = False
                # (pipe 0 may be one of this radio's reading pipes: back in TX mode the application names its target again, as after a turn)
                n_ = cfg["aw"] if cfg.get("trunc_addr") else 5
                tx.open_tx_pipe((fwd_addr if cur_pipe == cfg["pipe"] else unhx(cfg["alt"]["addr"])[:n_]) if fwd else rev_addr)
            sim.count("crc_changed_at_run_time")
            continue
        if op["op"] == "readdress":
            if conc or not fwd or id(rx) in kept:
                continue
            drain_all()
            outstanding = 0
            q = op["pipe"]
            n_ = cfg["aw"] if cfg.get("trunc_addr") else 5
            old, new = unhx(op["old"]), unhx(op["new"])
            if q >= 2:
                # pipes 2-5 share the upper bytes of whatever pipe 1 holds (the chip's reset value when the application never set it)
                base = bytes(rr.a[0x0B][1:5])
                old, new = old[:1] + base, new[:1] + base
            if state.get("inj") is None:
                state["inj"] = Injector(w, "INJ", channel=cfg["channel"], rate=cfg["rate"], aw=cfg["aw"], crc=cfg["crc"], esb=True, dpl=cfg["dyn"])
            inj = state["inj"]
            sim.log("call", "R", "readdress", q)
            rx.listen = False
            rx.open_rx_pipe(q, old[:n_])     # history: the pipe was used on another address and closed
            rx.close_rx_pipe(q)
            rx.listen = True
            flag = {"stop": False, "n": 0}

            def stream_():
                while not flag["stop"] and flag["n"] < 300:
                    raw = bytes([0xE0 | (flag["n"] & 15)]) * op["plen"]
                    inj.send(old[: cfg["aw"]], common.expected_payload(cfg, raw), want_ack=False, settle=False)
                    flag["n"] += 1
            t_inj = sim.spawn("inj", stream_, w.make_mcu("I"))
            sim.advance(op["lead_us"] * US)
            rx.open_rx_pipe(q, new[:n_])
            flag["stop"] = True
            for _ in range(4000):
                if t_inj.done:
                    break
                sim.advance(50 * US)
            sim.count("readdressed_under_traffic")
            sim.count("packets_to_old_address", flag["n"])
            for b_ in op["after"]:
                pl = common.expected_payload(cfg, unhx(b_))
                inj.send(new[: cfg["aw"]], pl, want_ack=False)
                expected.append((q, pl))
                outstanding += 1
            res.nontrivial = True
            continue
        if op["op"] == "load_ack":
            if conc or not cfg.get("ackpl"):
                continue
            for b_ in op["bufs"]:
                rx.load_ack(unhx(b_), cur_pipe if fwd else cfg["rpipe"])
            sim.count("ack_payloads_armed", len(op["bufs"]))
            continue
        if op["op"] == "burst":
            if conc or id(tx) in kept or not cfg["auto_ack"]:
                continue
            drain_all()
            outstanding = 0
            if id(tx) in stale:
                tx.flush_tx()
                stale.discard(id(tx))
            bufs = [_mk(b, t) for b, t in zip(op["bufs"], op["types"])]
            if cfg["dyn"] is False:
                pass
            sim.log("call", "T", "burst", len(bufs))
            accepted = []
            for b_ in bufs:
                try:
                    if tx.write(b_):
                        accepted.append(common.expected_payload(cfg, b_))
                except ValueError:
                    pass
            for _ in range(40000):
                tx.update()
                drain_all()
                if tx.fifo(True, True) and not rt.txing:
                    break
                if tx.irq_df:
                    break
            if tx.irq_df:
                res.add("result", {"kind": "burst_max_rt"}, "a burst of write() calls on a working link ended in MAX_RT")
                return
            drain_all()
            expected.extend((cur_pipe if fwd else cfg["rpipe"], e) for e in accepted)
            sim.count("burst_payloads_accepted", len(accepted))
            sim.count("burst_payloads_refused", len(bufs) - len(accepted))
            res.nontrivial = True
            continue
        if op["op"] == "drain":
            if not conc:
                drain_all()
                outstanding = 0
            continue
        bufs = [_mk(b, t) for b, t in zip(op["bufs"], op["types"])]
        snap = [(type(b), len(b), bytes(b)) for b in bufs]
        if not conc and outstanding + len(bufs) > 3:
            drain_all()
            outstanding = 0
        if conc:
            # flow control by the (omniscient) harness: without it an unacknowledged link may
            # legitimately overrun the peer's 3-deep RX FIFO, which is outside the property's premise
            for _ in range(5000):
                if not rr.rx_fifo:
                    break
                sim.advance(100 * US)
        bad = cfg["dyn"] and any(len(b) == 0 or len(b) > 32 for b in bufs)
        spi_mark = len(rt.spi_log)
        air_mark = w.air.n
        tr_mark = len(w.air.trace)
        sim.log("call", "T", op["op"], len(bufs), [len(b) for b in bufs])
        arg = bufs if op["list"] else bufs[0]
        exc = None
        ret = None
        dead = bool(op.get("dead")) and not conc and fwd and cfg["auto_ack"]
        if op.get("dead") and not dead:
            continue
        heal = None
        kw = {}
        if op["op"] == "send" and not dead and not conc:
            if op.get("fr"):
                kw["force_retry"] = op["fr"]
            if op.get("so") or id(tx) in kept:
                kw["send_only"] = True
            if op.get("heal_ms") is not None and cfg["auto_ack"] and not op["ask_no_ack"] and not scn.get("faults"):
                heal = op["heal_ms"]
        if op["op"] == "write" and id(tx) in kept:
            pass
        if dead:
            w.air.blackout = True
        if heal is not None:
            # the medium is dead when the call begins and heals a seeded while later (during the first cycle, or during a forced retry)
            w.air.blackout = True
            sim.after(heal * MS, setattr, w.air, "blackout", False)
        if id(tx) in stale and op["op"] == "write":
            # documented: a failed send() leaves its payload in the TX FIFO (for resend()); send() discards it by itself,
            # before a bare write() the application has to
            tx.flush_tx()
        stale.discard(id(tx))        # (send() discards a failed predecessor itself; before a bare write() the harness just did)
        if dead:
            stale.add(id(tx))
        try:
            if op["op"] == "send":
                ret = tx.send(arg, ask_no_ack=op["ask_no_ack"], **kw)
            else:
                ret = tx.write(arg, ask_no_ack=op["ask_no_ack"])
                if ret:
                    for _ in range(20000):
                        tx.update()
                        if tx.irq_ds or tx.irq_df:
                            break
                    ret = bool(tx.irq_ds)
        except ValueError as e:
            exc = e
        except SimAbort:
            raise
        except Exception as e:  # any other exception escaping a documented call
            res.add("rejects", {"kind": "unexpected_exception", "exc": type(e).__name__},
                    "%s(%r) raised %r" % (op["op"], [len(b) for b in bufs], e))
            return
        finally:
            w.air.blackout = False
        sim.log("ret", "T", op["op"], repr(ret), type(exc).__name__)
        ups = common.tx_uploads(rt.spi_log, spi_mark)
        # ---- unaliased
        for b, (t, ln, val) in zip(bufs, snap):
            if type(b) is not t or len(b) != ln or bytes(b) != val:
                res.add("unaliased", {"kind": "caller_buffer_modified", "type": t.__name__, "dyn": cfg["dyn"]},
                        "caller's %s of %d bytes became %d bytes %r (static_len=%s)" % (t.__name__, ln, len(b), bytes(b)[:40], cfg["static_len"]))
        # ---- rejects
        if bad:
            if exc is None:
                res.add("rejects", {"kind": "no_valueerror"}, "len %r accepted with dynamic payloads" % [len(b) for b in bufs])
            if ups or w.air.n != air_mark:
                res.add("rejects", {"kind": "reached_radio"}, "rejected payload produced %d uploads / %d air packets" % (len(ups), w.air.n - air_mark))
            continue
        if exc is not None:
            res.add("rejects", {"kind": "spurious_valueerror", "dyn": cfg["dyn"]},
                    "%s raised %r for lengths %r (dyn=%s)" % (op["op"], exc, [len(b) for b in bufs], cfg["dyn"]))
            continue
        # ---- loaded
        exp = [common.expected_payload(cfg, b) for b in bufs]
        if [u[2] for u in ups] != exp:
            res.add("loaded", {"kind": "upload_mismatch", "dyn": cfg["dyn"]},
                    "uploaded %r, expected %r" % ([hx(u[2]) for u in ups], [hx(e) for e in exp]))
        for u in ups:
            if u[1] == 0xB0 and not op["ask_no_ack"]:
                res.add("loaded", {"kind": "noack_command"}, "W_TX_PAYLOAD_NOACK used without ask_no_ack")
        if heal is not None and not ret:
            # every attempt (forced retries included) fell into the dead phase: nothing was delivered, nothing is owed
            w.air.blackout = False
            stale.add(id(tx))
            sim.count("healing_send_failed")
            continue
        if heal is not None:
            sim.count("healing_send_succeeded")
        if dead:
            # nothing was received by anybody: the payload is owed to nobody, and must never turn up later
            if ret:
                res.add("result", {"kind": "success_on_dead_medium"}, "send() returned %r although every attempt was lost" % (ret,))
            sim.count("send_on_dead_medium")
            # the transmitter turns to another pipe of the peer (part of the same step, so that a minimised scenario keeps it):
            # were the failed payload to come out later, it would do so on a pipe it was not sent to
            cur_pipe = retarget(cur_pipe)
            continue
        # ---- result (premise: working link)
        rets = ret if op["list"] else [ret]
        if not isinstance(rets, list) or len(rets) != len(bufs) or not all(bool(x) for x in rets):
            seg = w.air.trace[tr_mark:]
            hit = [t for t in seg if any(str(oc).startswith("fault:") for (_, oc) in t["rx"])]
            got_ack = any(t["ack"] and any(oc == "ack_ok" for (_, oc) in t["rx"]) for t in seg)
            if scn.get("faults") and hit and not got_ack and isinstance(rets, list) and len(rets) == len(bufs) == 1:
                # the seeded loss pattern happened to hit every attempt of this payload or its acknowledgement (the generator only
                # bounds runs of lost transmissions): the link was not a working one for this call - the premise is gone, the run
                # ends here; whatever the peer holds must still be payloads that were sent
                sim.count("premise_broken_by_loss_pattern")
                premise_broken = True
                break
            res.add("result", {"kind": "send_reported_failure"}, "%s returned %r on a working link" % (op["op"], ret))
        expected.extend((cur_pipe if fwd else cfg["rpipe"], e) for e in exp)
        outstanding += len(bufs)
        res.nontrivial = True

    # ---- delivered
    if conc:
        # quiescence: give the receiver task a few poll periods, then stop it
        sim.advance(20 * rx_mcu.poll_ns + 5 * MS)
        state["stop"] = True
        sim.join([rx_task], timeout=200 * MS)
    else:
        drain_all()
        if id(tx) in kept:
            expected.extend(kept.pop(id(tx)))
            drain_all(drv=tx)
    want = [(pp, len(e), e) for (pp, e) in expected]
    if premise_broken:
        # the payload of the call that met the dead pattern may or may not have arrived (its ACKs were lost): everything before it
        # must be there, in order; one more copy of that payload is acceptable, nothing else
        last = common.expected_payload(cfg, bufs[0])
        if got[:len(want)] != want or any(g[2] != last for g in got[len(want):]) or len(got) > len(want) + 1:
            res.add("delivered", {"kind": "mismatch_before_dead_pattern"}, "peer read %r, expected %r (+ at most one %s)" % ([(g[0], g[1], hx(g[2] or b"")) for g in got][:8], [(x[0], x[1], hx(x[2])) for x in want][:8], hx(last)))
        rr.rx_fifo.clear()
    elif got != want:
        kind = "mismatch"
        gb = [g[2] for g in got]
        wb = [x[2] for x in want]
        if gb == wb:
            kind = "pipe_or_length_attribution"
        elif len(gb) > len(wb):
            kind = "extra_payload"
        elif len(gb) < len(wb):
            kind = "missing_payload"
        else:
            kind = "wrong_bytes"
        res.add("delivered", {"kind": kind},
                "peer read %r, expected %r" % ([(g[0], g[1], hx(g[2] or b"")) for g in got][:8], [(x[0], x[1], hx(x[2])) for x in want][:8]))
    if cfg.get("ackpl"):
        rt.rx_fifo.clear()
        rr.rx_fifo.clear()
    if rr.rx_fifo:
        res.add("delivered", {"kind": "rx_fifo_not_empty"}, "%d payloads left in the peer's RX FIFO" % len(rr.rx_fifo))
    res.sample = {"cfg": {k: cfg[k] for k in ("channel", "rate", "crc", "aw", "pipe", "dyn", "static_len", "auto_ack")},
                  "ops": [(o["op"], [len(b) // 2 for b in o.get("bufs", [])]) for o in scn["ops"]][:8],
                  "faults": len(scn.get("faults") or []), "mode": scn.get("mode")}
