"""C14 - a multicast reaches exactly the chosen network level, unacknowledged.

Populated topologies (5..16 nodes over levels 0..4, several per level), all nodes real objects running as tasks; per
node allow_multicast and multicast_relay on/off.  One multicast at a time; history oracle at quiescence.

Clauses:
  who      (no relaying node in the run) the set of application logs that receive the message = nodes of level L that
           allow multicast, minus the sender, each exactly once; no node of another level
  unacked  for every multicast transmission the sending radio did not wait for an ACK (chip ground truth) and no
           ACK packet appears on the air
  relay    (exactly one relaying node R of level 1..3, single-frame message to R's level) R re-broadcasts the frame
           once, to level L+1's shared address, and still logs it itself
  deaf     a node configured with allow_multicast off does not listen on its level's shared address (chip registers)
           and receives nothing
"""
from nrfsim.core import SimAbort, stream, MS, US
from nrfsim.harness import Result
from nrfsim.mcu import World, random_mcu_knobs
from checks import netref
from checks.netcommon import Net, net_write
from checks.c05 import payload, BOUNDARY

PROP = "C14"
LEVEL = "exploration"
RULE = ("seeded scenarios: populated parent-closed topology of 5..16 nodes over levels 0..4 (several per level), per-node "
        "allow_multicast on/off, at most one relaying node (levels 1..3, sometimes 4), MCU jitter, sometimes a failed unicast (absent neighbour) right before the multicast, a third of the nodes constructed with another address (any level) and re-addressed before start, a relay whose slow application has 5/6 unread messages queued, bursts of 2-3 multicasts (same type or not) to applications that read late, two nodes multicasting 0-3 ms apart (short or fragmented, equal frame-id counters in half of these), a fragmented multicast that loses its last fragment (targeted fault) followed by a complete one, a multicast and a neighbour's unicast waiting together in the radio of a busy node, frame-id counters seeded per node (wrap-around included); 15 % of the runs lossy with only the safety clauses (nothing garbled, nobody else, nothing acknowledged); 1..3 multicasts from every sender class (master, "
        "first child 0o1, other level-1 node, deeper levels) x target level in {default, 0..4}, lengths 0..144 (boundary "
        "biased), types 0..127. Non-trivial: the target level holds at least one other listening node; distinct = distinct "
        "abstract event sequences")
ASSUMPTIONS = ["multicast has no link-layer flow control: for fragmented multicasts every node polls within 300 us and uses <= 50 us "
               "per SPI transaction, otherwise the 3-deep RX FIFO may legitimately overflow",
               "relay runs use single-frame messages (a relaying node is deaf while it re-broadcasts)",
               "the multicasting node itself has allow_multicast on (with it off the node uses its private pipe-0 translation)",
               "the master always allows multicast: its pipe-0 address is the level-0 address in both translations (as in TMRh20), so 'not listening' is undefined for it",
               "chip/air model M3, M10"]
CLAUSES = {"who": "received once by every other listening node of level L that allows multicast and by no node of any other level",
           "unacked": "transmitted without requesting acknowledgements; no receiver acknowledges", "relay": "re-broadcast once to the next level, still queued locally",
           "deaf": "allow_multicast off: not listening on the shared level address"}
SHRINK_KEYS = ("casts",)
PROBES = ["relay_queue_full", "burst_met_slow_readers", "readdressed", "near_simultaneous_multicasts", "fault:last_fragment_lost", "multicast_waited_ahead_of_a_unicast"]
CHUNK = 8
MAX_INCONCLUSIVE = 0.02


def count(tier):
    return 400 if tier == "quick" else 20000


def exhaustive(tier):
    return False


def populated(rng):
    nodes = {0}
    target = rng.randint(5, 16)
    tries = 0
    while len(nodes) < target and tries < 400:
        tries += 1
        base = rng.choice(sorted(nodes))
        lv = netref.level(base)
        if lv >= 4:
            continue
        nodes.add(base | (rng.randint(1, 5) << (3 * lv)))
    if rng.random() < 0.6:
        nodes.add(0o1)
    return sorted(nodes)


def make(i, base_seed, tier):
    seed = base_seed * 1_000_003 + i
    rng = stream(seed, "work")
    kr = stream(seed, "knobs")
    topo = populated(rng)
    with_relay = rng.random() < 0.35
    relay_node = None
    if with_relay:
        # levels 1..3 are the property's scope; a level-4 relay has no next level - whatever it does must reach nobody
        c = [a for a in topo if 1 <= netref.level(a) <= (4 if rng.random() < 0.25 else 3)]
        relay_node = rng.choice(c) if c else None
    casts = []
    for _ in range(rng.randint(1, 3)):
        snd = rng.choice(topo)
        k = rng.random()
        if k < 0.2:
            snd = 0
        elif k < 0.4 and 0o1 in topo:
            snd = 0o1
        lvl = rng.choice([None, None, 0, 1, 2, 3, 4])
        if relay_node is not None and rng.random() < 0.7:
            lvl = netref.level(relay_node)
            snd = rng.choice([a for a in topo if a != relay_node])
        ln = rng.choice(BOUNDARY) if rng.random() < 0.5 else rng.randint(0, 144)
        if relay_node is not None:
            ln = min(ln, 24)
        if rng.random() < 0.25:
            # a unicast to an absent neighbour fails first (every retry unacknowledged); the multicast follows
            Lt = netref.level(snd) if lvl is None else lvl
            cands = [a for a in topo if netref.level(a) == Lt and a != snd] or topo
            f = rng.choice(cands)          # preferably a node of the level the multicast is going to
            lvf = netref.level(f)
            absent = [f | (d << (3 * lvf)) for d in range(1, 6) if lvf < 4 and (f | (d << (3 * lvf))) not in topo]
            if absent:
                casts.append({"kind": "failed_unicast", "src": f, "dst": rng.choice(absent), "len": rng.randint(0, 24), "type": rng.randint(0, 127), "seed": rng.getrandbits(20)})
        casts.append({"src": snd, "level": lvl, "len": ln, "type": rng.randint(0, 127), "seed": rng.getrandbits(20)})
    frag = any(c["len"] > 24 for c in casts)
    for c in casts:
        if relay_node is not None and c.get("kind") != "failed_unicast":
            c["len"] = min(c["len"], 24)
    nodes = []
    for a in topo:
        if frag:
            k = {"spi_overhead_us": rng.choice([5, 20, 50]), "spi_jitter_us": 5, "poll_us": rng.choice([100, 300]),
                 "rate": 1.0 + rng.uniform(-0.02, 0.02), "epoch_ns": rng.randrange(10**12)}
        else:
            k = random_mcu_knobs(kr, stalls=False)
        nodes.append({"addr": a, "knobs": k, "allow": rng.random() < 0.8 or a == relay_node, "relay": a == relay_node})
    xr = stream(seed, "ext")
    for nd in nodes:
        if xr.random() < 0.3:
            # the node was constructed with another address (any level) and re-addressed before it started
            lv = xr.randint(0, 4)
            nd["first_addr"] = sum(xr.randint(1, 5) << (3 * d) for d in range(lv))
    lazy = None
    if relay_node is not None and netref.level(relay_node) <= 3 and xr.random() < 0.4:
        # the relaying node's application is slow to read: 5 or 6 (= max_queue_size) unicast messages from its parent wait in
        # its queue when the multicast arrives - the re-broadcast does not depend on the relay's own queue having room
        lazy = {"n": xr.choice([5, 6, 6]), "seed": xr.getrandbits(20)}
    if relay_node is None and xr.random() < 0.3:
        # a burst of 2-3 multicasts of one sender to one level (same message type half of the time) while the applications of
        # the receiving level are slow to read: each message is still owed to every target exactly once
        snd = xr.choice(topo)
        lvl = xr.choice([None, 0, 1, 2, 3, 4])
        ty = xr.randint(0, 127)
        same = xr.random() < 0.6
        casts.append({"kind": "burst", "src": snd, "level": lvl, "lazy": xr.random() < 0.8,
                      "msgs": [{"len": xr.randint(0, 24), "type": ty if same else xr.randint(0, 127), "seed": xr.getrandbits(20)}
                               for _ in range(xr.randint(2, 3))]})
    if relay_node is None and len(topo) >= 3 and xr.random() < 0.25:
        # two nodes multicast at almost the same time (the second 0..3 ms after the first), short or fragmented, to each other's level
        # or a common one; frame-id counters equal in half of these runs
        a_, b_ = xr.sample(topo, 2)
        lv_ = xr.choice([netref.level(a_), netref.level(b_), None])
        casts.append({"kind": "duo", "src": a_, "src2": b_, "level": lv_ if lv_ is not None else netref.level(b_), "level2": lv_ if lv_ is not None else netref.level(a_),
                      "gap_us": xr.randint(0, 3000), "same_ids": xr.random() < 0.5,
                      "m1": {"len": xr.choice([0, 10, 24, 40, 60, 100]), "type": xr.randint(0, 127), "seed": xr.getrandbits(20)},
                      "m2": {"len": xr.choice([30, 40, 60, 100, 10]), "type": xr.randint(0, 127), "seed": xr.getrandbits(20)}})
        if casts[-1]["same_ids"]:
            fid_ = xr.choice([0, 7, 0xFFFF])
            for nd in nodes:
                if nd["addr"] in (a_, b_):
                    nd["fid_duo"] = fid_
    zr = stream(seed, "ext3")
    if relay_node is None and len(topo) >= 2 and zr.random() < 0.2:
        # (stale) a fragmented multicast loses its LAST fragment on the way to one (or every) receiver - an explicit, targeted fault -
        # and a complete fragmented multicast follows, from the same sender or another one: it must arrive
        s1 = zr.choice(topo)
        lv_ = zr.choice([netref.level(x) for x in topo if x != s1])
        s2 = zr.choice([x for x in topo if x == s1 or netref.level(x) != lv_ or True])
        tA = zr.randint(0, 127)
        tB = zr.choice([t for t in range(0, 128) if t != tA])
        casts.append({"kind": "stale", "src": s1, "src2": s2, "level": lv_, "victim": zr.choice([None] + [x for x in topo if netref.level(x) == lv_ and x != s1]),
                      "mA": {"len": zr.choice([25, 40, 60, 100]), "type": tA, "seed": zr.getrandbits(20)},
                      "mB": {"len": zr.choice([25, 40, 60, 100]), "type": tB, "seed": zr.getrandbits(20)}})
    if relay_node is None and zr.random() < 0.2:
        # (behind) a node's application is busy for a while; a multicast to its level arrives, then a unicast from its parent or one of its
        # children: both wait in its radio when it polls again
        cand = [(x, n_) for x in topo for n_ in topo if x != n_ and (netref.parent(x) == n_ or netref.parent(n_) == x) and x != 0]
        if cand:
            x_, n_ = zr.choice(cand)
            others = [y for y in topo if y != x_]
            casts.append({"kind": "behind", "src": zr.choice(others), "level": netref.level(x_), "target": x_, "neighbour": n_, "busy_ms": zr.choice([8, 15, 30]),
                          "m": {"len": zr.choice([0, 5, 24]), "type": zr.randint(0, 127), "seed": zr.getrandbits(20)},
                          "u": {"len": zr.choice([0, 5, 24]), "type": zr.randint(0, 64), "seed": zr.getrandbits(20)}, "more": zr.randint(0, 1)})
    senders = {c["src"] for c in casts if c.get("kind") != "failed_unicast"} | {c["src2"] for c in casts if c.get("kind") in ("duo", "stale")}
    for nd in nodes:
        if nd["addr"] in senders or nd["addr"] == 0:
            nd["allow"] = True   # multicast() on a node that has the feature switched off is not generated
    for nd in nodes:
        # every node's frame-id counter starts at a seeded value, wrap-around included
        nd["fid"] = nd.get("fid_duo", xr.choice([0, 1, 0xFFFD, 0xFFFE, 0xFFFF, xr.getrandbits(16)]))
    faults = []
    if xr.random() < 0.15:
        # lossy configuration (separate from the property's loss-free premise): only the safety clauses are enforced - whatever a
        # node's application dequeues is a complete multicast that was sent, on the right level; nothing is acknowledged
        ar = stream(seed, "air")
        p = xr.choice([0.05, 0.15, 0.3])
        faults = [{"n": n} for n in range(400) if ar.random() < p]
    return {"seed": seed, "nodes": nodes, "casts": casts, "relay_node": relay_node, "lazy": lazy, "faults": faults}


def run(scn):
    res = Result()
    w = World(scn["seed"], plan=scn.get("faults"), max_events=3_000_000, max_time=120_000 * MS)
    net = Net(w)
    try:
        _run(scn, w, net, res)
    except SimAbort:
        pass
    finally:
        res.absorb_world(w)
        w.close()
    return res


def _run(scn, w, net, res):
    sim = w.sim
    allow = {}
    for nd in scn["nodes"]:
        def setup(node, nd=nd):
            if nd.get("first_addr") is not None:
                node.node_address = nd["addr"]
                sim.count("readdressed")
            if not nd["allow"]:
                node.allow_multicast = False
                node.node_address = node.node_address   # documented: affects pipe 0 when setting the node_address
            if nd["relay"]:
                node.multicast_relay = True
        nc_ = net.add(nd["addr"], "net", nd["addr"] if nd.get("first_addr") is None else nd["first_addr"], knobs=nd["knobs"], setup=setup)
        nc_.mcu.next_id = nd.get("fid", 0)
        allow[nd["addr"]] = nd["allow"]
    # ---- deaf (registers)
    for a, nc in net.nodes.items():
        shared = netref.pipe_address(netref.lvl_addr(netref.level(a)), 0)
        p0 = nc.radio.pipe_addr(0)
        if not allow[a] and a != 0 and p0 == shared:
            res.add("deaf", {"kind": "listens_on_level_address"}, "node %o has allow_multicast off but pipe 0 is on the shared level address %s" % (a, p0.hex()))
        if allow[a] and p0 != shared:
            res.add("who", {"kind": "not_on_level_address"}, "node %o allows multicast but pipe 0 is %s, level address %s" % (a, p0.hex(), shared.hex()))
    net.start()
    sim.advance(3 * MS)
    relay_node = scn.get("relay_node")
    addrs = set(net.nodes)
    lossy = bool(scn.get("faults"))
    lazy = scn.get("lazy")
    relay_full = False
    prefill = set()
    if lazy and relay_node in addrs and netref.parent(relay_node) in addrs:
        R = net.nodes[relay_node]
        R.no_read = True
        for q in range(lazy["n"]):
            prefill.add((relay_node, netref.parent(relay_node), 20 + q, payload(lazy["seed"] + q, 1 + q)))
            net.call(netref.parent(relay_node), "write", lambda node, q=q: net_write(node, relay_node, 20 + q, payload(lazy["seed"] + q, 1 + q)), timeout=5000 * MS)
        net.wait_quiet(quiet=5 * MS, timeout=2000 * MS)
        relay_full = len(R.node.queue) >= R.node.queue.max_queue_size
        sim.count("relay_queue_full" if relay_full else "relay_queue_nearly_full")
    for m in scn["casts"]:
        if m["src"] not in addrs:
            continue
        if m.get("kind") == "failed_unicast":
            def fail(node, m=m):
                from circuitpython_nrf24l01.network.structs import RF24NetworkHeader, RF24NetworkFrame
                return node.write(RF24NetworkFrame(RF24NetworkHeader(m["dst"], m["type"]), payload(m["seed"], m["len"])))
            net.call(m["src"], "write", fail, timeout=5000 * MS)
            net.wait_quiet(quiet=5 * MS, timeout=2000 * MS)
            continue
        if m.get("kind") == "duo":
            _duo(m, w, net, res, allow, addrs)
            if res.violations:
                break
            continue
        if m.get("kind") == "burst":
            _burst(m, w, net, res, allow, addrs)
            if res.violations:
                break
            continue
        if m.get("kind") == "stale":
            _stale(m, w, net, res, allow, addrs)
            if res.violations:
                break
            continue
        if m.get("kind") == "behind":
            _behind(m, w, net, res, allow, addrs)
            if res.violations:
                break
            continue
        src = m["src"]
        L = netref.level(src) if m["level"] is None else m["level"]
        data = payload(m["seed"], m["len"])
        marks = {k: len(nc.log) for k, nc in net.nodes.items()}
        a0 = len(w.air.trace)
        cyc0 = {k: len(nc.radio.cycles) for k, nc in net.nodes.items()}
        c = net.call(src, "multicast", lambda node, m=m, data=data: node.multicast(data, m["type"], m["level"]), timeout=5000 * MS)
        if not c.done or c.exc is not None:
            res.add("who", {"kind": "multicast_raised_or_hung", "exc": type(c.exc).__name__}, "multicast() %s: %r" % ("raised" if c.done else "did not return", c.exc))
            return
        net.wait_quiet(quiet=12 * MS, timeout=3000 * MS)
        if lazy and relay_node in addrs and net.nodes[relay_node].no_read:
            # the slow application finally reads (after the multicast was handled by its network layer)
            R = net.nodes[relay_node]
            R.no_read = False
            net.call(relay_node, "read_all", lambda node: None, timeout=1000 * MS)
        new = {k: [e for e in nc.log[marks[k]:] if (k, e[1], e[3], e[4]) not in prefill] for k, nc in net.nodes.items()}
        targets = {a for a in addrs if netref.level(a) == L and allow[a] and a != src}
        if targets:
            res.nontrivial = True
        sig = {"sender_class": "master" if src == 0 else ("first_child" if src == 0o1 else "level%d" % netref.level(src)), "level": L,
               "own_level": L == netref.level(src), "explicit": m["level"] is not None, "frag": m["len"] > 24}
        relayed_levels = set()
        if relay_node is not None and netref.level(relay_node) == L and relay_node != src:
            relayed_levels.add(L + 1)
        # ---- who
        for k, entries in new.items():
            match = [e for e in entries if (e[1], e[3], e[4]) == (src, m["type"], data)]
            other = [e for e in entries if (e[1], e[3], e[4]) != (src, m["type"], data)]
            if other:
                res.add("who", dict(sig, kind="garbled"), "node %o dequeued %r, multicast was from %o type %d %d bytes"
                        % (k, [(oct(e[1]), e[3], len(e[4])) for e in other], src, m["type"], m["len"]))
            if k in targets:
                if k == relay_node and relay_full:
                    continue   # a full queue cannot take the frame (bounded queue, C12); the re-broadcast is still owed
                if len(match) != 1 and not lossy:
                    res.add("who", dict(sig, kind="missed" if not match else "duplicate"),
                            "node %o (level %d, allows multicast) dequeued the multicast from %o to level %d %d times (multicast() returned %r)"
                            % (k, netref.level(k), src, L, len(match), c.result))
            elif match and netref.level(k) not in relayed_levels:
                res.add("who" if allow.get(k, True) else "deaf", dict(sig, kind="wrong_receiver", is_sender=k == src),
                        "node %o (level %d, allow_multicast %s) dequeued a multicast sent by %o to level %d" % (k, netref.level(k), allow[k], src, L))
        # ---- unacked
        for t in w.air.trace[a0:]:
            if t["ack"]:
                res.add("unacked", dict(sig, kind="ack_on_air"), "an ACK packet from %s appeared on the air after a multicast" % t["src"])
                break
        for k, nc in net.nodes.items():
            for cy in nc.radio.cycles[cyc0[k]:]:
                if cy["expects_ack"]:
                    res.add("unacked", dict(sig, kind="ack_requested"), "node %o transmitted a multicast frame requesting an acknowledgement" % k)
                    break
        # ---- relay
        if relayed_levels and m["len"] <= 24 and L <= 3 and not lossy:
            R = net.nodes[relay_node]
            want_addr = netref.pipe_address(netref.lvl_addr(L + 1), 0)
            tx = [t for t in w.air.trace[a0:] if t["src"] == "n%s" % relay_node and not t["ack"]]
            mine = [e for e in new[relay_node] if (e[1], e[3], e[4]) == (src, m["type"], data)]
            if len(mine) != 1 and not relay_full:
                res.add("relay", dict(sig, kind="relay_did_not_queue"), "relaying node %o dequeued the frame %d times" % (relay_node, len(mine)))
            if len(tx) != 1:
                res.add("relay", dict(sig, kind="relay_count"), "relaying node %o put %d packets on the air (expected exactly one re-broadcast)" % (relay_node, len(tx)))
            elif tx[0]["addr"] != want_addr or tx[0]["data"][8:] != data:
                res.add("relay", dict(sig, kind="relay_target"), "relay transmitted to %s, level %d's shared address is %s" % (tx[0]["addr"].hex(), L + 1, want_addr.hex()))
        if res.violations:
            break
    net.shutdown()
    for k, nc in net.nodes.items():
        for (t, e, tb) in nc.update_exc:
            res.add("who", {"kind": "update_raised", "exc": type(e).__name__}, "update() on node %o raised %r\n%s" % (k, e, tb))
    res.sample = {"topology": [oct(nd["addr"]) for nd in scn["nodes"]], "deaf": [oct(nd["addr"]) for nd in scn["nodes"] if not nd["allow"]],
                  "relay": oct(relay_node) if relay_node is not None else None,
                  "casts": [(oct(m["src"]), m.get("kind", "multicast"), m.get("level"), m.get("len"), m.get("type")) for m in scn["casts"]]}


def _stale(m, w, net, res, allow, addrs):
    """explicit fault: the LAST fragment of multicast A is lost (for one receiver or all); the complete multicast B that follows must arrive"""
    sim = w.sim
    if m["src"] not in addrs or m["src2"] not in addrs or not allow.get(m["src"], True) or not allow.get(m["src2"], True) or w.air.plan.rules:
        return      # (the lossy configuration keeps to its own clauses)
    A = (m["mA"]["type"], payload(m["mA"]["seed"], m["mA"]["len"]))
    B = (m["mB"]["type"], payload(m["mB"]["seed"], m["mB"]["len"]))
    rule = {"src": "n%s" % m["src"], "ptype": 150, "pres": A[0], "ack": False}
    if m.get("victim") is not None:
        rule["dst"] = "n%s" % m["victim"]
    marks = {k: len(nc.log) for k, nc in net.nodes.items()}
    w.air.plan.rules.append(rule)
    fired0 = w.air.plan.fired.get("pkt_drop", 0)
    c = net.call(m["src"], "multicast", lambda node: node.multicast(A[1], A[0], m["level"]), timeout=5000 * MS)
    net.wait_quiet(quiet=12 * MS, timeout=3000 * MS)
    w.air.plan.rules.remove(rule)
    if not c.done or c.exc is not None:
        res.add("who", {"kind": "multicast_raised_or_hung", "exc": type(c.exc).__name__}, "multicast() %s: %r" % ("raised" if c.done else "did not return", c.exc))
        return
    if w.air.plan.fired.get("pkt_drop", 0) == fired0:
        return        # nobody was in reach of that fragment: nothing to heal
    sim.count("fault:last_fragment_lost")
    a0 = len(w.air.trace)
    c = net.call(m["src2"], "multicast", lambda node: node.multicast(B[1], B[0], m["level"]), timeout=5000 * MS)
    net.wait_quiet(quiet=12 * MS, timeout=3000 * MS)
    if not c.done or c.exc is not None:
        res.add("who", {"kind": "multicast_raised_or_hung", "exc": type(c.exc).__name__}, "multicast() %s: %r" % ("raised" if c.done else "did not return", c.exc))
        return
    res.nontrivial = True
    sig = {"stale": True, "same_sender": m["src"] == m["src2"]}
    for k, nc in net.nodes.items():
        got = [(e[1], e[3], e[4]) for e in nc.log[marks[k]:]]
        for g in got:
            if g not in ((m["src"], A[0], A[1]), (m["src2"], B[0], B[1])):
                res.add("who", dict(sig, kind="garbled"), "node %o dequeued from %o type %d %d bytes after a multicast had lost its last fragment; sent were %d and %d bytes"
                        % (k, g[0], g[1], len(g[2]), len(A[1]), len(B[1])))
                return
        nB = got.count((m["src2"], B[0], B[1]))
        is_target = k != m["src2"] and allow.get(k, True) and netref.level(k) == m["level"]
        # (multicasts are unacknowledged: a slow node's 3-deep RX FIFO may overflow - only what its radio stored in full is owed)
        frames = [t for t in w.air.trace[a0:] if not t["ack"] and t["src"] == "n%s" % m["src2"]]
        complete = len(frames) == len(netref.fragment(m["src2"], 0o100, 0, B[0], B[1])) and all(("n%s" % k, "stored") in [tuple(x) for x in t["rx"]] for t in frames)
        if is_target and nB > 1 or (is_target and nB != 1 and complete and len(nc.node.queue) < nc.node.queue.max_queue_size):
            res.add("who", dict(sig, kind="missed_after_lost_fragment" if nB == 0 else "duplicate"),
                    "node %o (level %d) dequeued the complete %d-byte multicast from %o %d times; the multicast before it (from %o) had lost its last fragment%s"
                    % (k, m["level"], len(B[1]), m["src2"], nB, m["src"], "" if m.get("victim") is None else " on the way to node %o" % m["victim"]))
            return
        if not is_target and nB:
            res.add("who", dict(sig, kind="wrong_receiver"), "node %o (level %d) dequeued the multicast sent to level %d" % (k, netref.level(k), m["level"]))
            return


def _behind(m, w, net, res, allow, addrs):
    """a multicast and then a neighbour's unicast wait in the radio of a node whose application was busy: both are delivered"""
    sim = w.sim
    x, n_ = m["target"], m["neighbour"]
    if x not in addrs or n_ not in addrs or m["src"] not in addrs or not allow.get(x, True) or not allow.get(m["src"], True) or w.air.plan.rules:
        return
    import circuitpython_nrf24l01.network.mixins as mx_
    from circuitpython_nrf24l01.network.structs import RF24NetworkHeader, RF24NetworkFrame
    M = (m["m"]["type"], payload(m["m"]["seed"], m["m"]["len"]))
    U = (m["u"]["type"], payload(m["u"]["seed"], m["u"]["len"]))
    mark = len(net.nodes[x].log)
    a0 = len(w.air.trace)
    busy = net.post(x, "busy", lambda node: mx_.time.sleep(m["busy_ms"] / 1000))
    sim.advance(1 * MS)
    cs = [net.call(m["src"], "multicast", lambda node: node.multicast(M[1], M[0], m["level"]), timeout=5000 * MS)]
    for k_ in range(1 + m.get("more", 0)):
        cs.append(net.call(n_, "write", lambda node, k_=k_: node.write(RF24NetworkFrame(RF24NetworkHeader(x, U[0] + k_), U[1])), timeout=5000 * MS))
    in_time = not busy.done
    net.wait(busy, timeout=5000 * MS)
    net.wait_quiet(quiet=12 * MS, timeout=3000 * MS)
    for c in cs:
        if not c.done or c.exc is not None:
            res.add("who", {"kind": "multicast_raised_or_hung", "exc": type(c.exc).__name__}, "%s %s: %r" % (c.name, "raised" if c.done else "did not return", c.exc))
            return
    if in_time:
        sim.count("multicast_waited_ahead_of_a_unicast")
    res.nontrivial = True
    got = [(e[1], e[3], e[4]) for e in net.nodes[x].log[mark:]]
    n = len([e for e in net.nodes[x].log[mark:] if (e[1], e[2], e[3], e[4]) == (m["src"], 0o100, M[0], M[1])])
    stored = [t for t in w.air.trace[a0:] if not t["ack"] and t["src"] == "n%s" % m["src"] and len(t["data"]) >= 8 and (t["data"][2] | (t["data"][3] << 8)) == 0o100
              and ("n%s" % x, "stored") in [tuple(r_) for r_ in t["rx"]]]
    if n > 1 or (n == 0 and stored and len(net.nodes[x].node.queue) < net.nodes[x].node.queue.max_queue_size):
        res.add("who", {"kind": "missed" if n == 0 else "duplicate", "behind": True},
                "node %o (level %d) was busy for %d ms; the multicast from %o and %d unicast(s) from its neighbour %o waited in its radio; it dequeued the multicast %d times (all it dequeued: %r)"
                % (x, m["level"], m["busy_ms"], m["src"], 1 + m.get("more", 0), n_, n, [(oct(g[0]), g[1], len(g[2])) for g in got]))


def _duo(m, w, net, res, allow, addrs):
    """two multicasts at almost the same time.  Collisions on the air may legitimately lose fragments (nothing is acknowledged); what
    is checked: nothing garbled or misdelivered, and a message all of whose fragments a target's radio stored - contiguously, not
    interleaved with another fragment stream - reaches that target's application once"""
    sim = w.sim
    if m["src"] not in addrs or m["src2"] not in addrs:
        return
    msgs = {m["src"]: (m["m1"]["type"], payload(m["m1"]["seed"], m["m1"]["len"]), m["level"]),
            m["src2"]: (m["m2"]["type"], payload(m["m2"]["seed"], m["m2"]["len"]), m["level2"])}
    if msgs[m["src"]][:2] == msgs[m["src2"]][:2]:
        return
    marks = {k: len(nc.log) for k, nc in net.nodes.items()}
    a0 = len(w.air.trace)
    c1 = net.post(m["src"], "multicast", lambda node: node.multicast(msgs[m["src"]][1], msgs[m["src"]][0], msgs[m["src"]][2]))
    net.hold(m["src2"], m["gap_us"] * US)
    c2 = net.post(m["src2"], "multicast", lambda node: node.multicast(msgs[m["src2"]][1], msgs[m["src2"]][0], msgs[m["src2"]][2]))
    for c in (c1, c2):
        net.wait(c, timeout=5000 * MS)
        if not c.done or c.exc is not None:
            res.add("who", {"kind": "multicast_raised_or_hung", "exc": type(c.exc).__name__}, "multicast() %s: %r" % ("raised" if c.done else "did not return", c.exc))
            return
    net.wait_quiet(quiet=12 * MS, timeout=3000 * MS)
    sim.count("near_simultaneous_multicasts")
    res.nontrivial = True
    sig = {"duo": True, "same_ids": bool(m.get("same_ids"))}
    sent_set = {(src, t, d) for src, (t, d, _) in msgs.items()}
    for k, nc in net.nodes.items():
        got = [(e[1], e[3], e[4]) for e in nc.log[marks[k]:]]
        for g in got:
            if g not in sent_set:
                res.add("who", dict(sig, kind="garbled"), "node %o dequeued from %o type %d %d bytes; the multicasts were %r" % (k, g[0], g[1], len(g[2]), [(oct(x[0]), x[1], len(x[2])) for x in sent_set]))
                return
        # which fragment frames did this node's radio store, in which order?
        stored = [t for t in w.air.trace[a0:] if not t["ack"] and ("n%s" % k, "stored") in [tuple(x) for x in t["rx"]] and len(t["data"]) >= 8]
        for src, (t_, d_, L_) in msgs.items():
            if k == src or not allow.get(k, True) or netref.level(k) != L_:
                if (src, t_, d_) in got and (netref.level(k) != L_ or k == src):
                    res.add("who", dict(sig, kind="wrong_receiver", is_sender=k == src), "node %o (level %d) dequeued the multicast %o sent to level %d" % (k, netref.level(k), src, L_))
                    return
                continue
            ref = netref.fragment(src, 0o100, 0, t_, d_)
            mine = [i for i, t in enumerate(stored) if t["src"] == "n%s" % src]
            complete = len(mine) == len(ref) and mine == list(range(mine[0], mine[0] + len(ref))) if mine else False
            n_ = got.count((src, t_, d_))
            if complete and n_ != 1 and len(nc.node.queue) < nc.node.queue.max_queue_size:
                res.add("who", dict(sig, kind="stored_by_the_radio_but_not_delivered" if n_ == 0 else "duplicate"),
                        "node %o: its radio stored all %d frame(s) of the multicast from %o one after the other, its application dequeued the message %d times"
                        % (k, len(ref), src, n_))
                return
            if n_ > 1:
                res.add("who", dict(sig, kind="duplicate"), "node %o dequeued the multicast from %o %d times" % (k, src, n_))
                return
    for t in w.air.trace[a0:]:
        if t["ack"]:
            res.add("unacked", dict(sig, kind="ack_on_air"), "an ACK packet from %s appeared on the air after a multicast" % t["src"])
            return


def _burst(m, w, net, res, allow, addrs):
    sim = w.sim
    lossy = bool(w.air.plan.rules)
    src = m["src"]
    L = netref.level(src) if m["level"] is None else m["level"]
    targets = {a for a in addrs if netref.level(a) == L and allow[a] and a != src}
    msgs = [(x["type"], payload(x["seed"], x["len"])) for x in m["msgs"]]
    if len(set(msgs)) != len(msgs):
        return
    marks = {k: len(nc.log) for k, nc in net.nodes.items()}
    if m["lazy"]:
        for k in targets:
            net.nodes[k].no_read = True

    def go(node):
        return [node.multicast(d, t, m["level"]) for (t, d) in msgs]
    c = net.call(src, "multicast_burst", go, timeout=5000 * MS)
    if not c.done or c.exc is not None:
        res.add("who", {"kind": "multicast_raised_or_hung", "exc": type(c.exc).__name__}, "multicast() %s: %r" % ("raised" if c.done else "did not return", c.exc))
        return
    net.wait_quiet(quiet=12 * MS, timeout=3000 * MS)
    if m["lazy"]:
        for k in sorted(targets):
            net.nodes[k].no_read = False
            net.call(k, "read_all", lambda node: None, timeout=1000 * MS)
        sim.count("burst_met_slow_readers")
    if targets:
        res.nontrivial = True
    sig = {"sender_class": "master" if src == 0 else ("first_child" if src == 0o1 else "level%d" % netref.level(src)), "level": L,
           "own_level": L == netref.level(src), "explicit": m["level"] is not None, "frag": False, "burst": True,
           "same_type": len({t for t, _ in msgs}) == 1, "slow_readers": bool(m["lazy"])}
    for k, nc in net.nodes.items():
        got = [(e[1], e[3], e[4]) for e in nc.log[marks[k]:]]
        for (t, d) in msgs:
            n = got.count((src, t, d))
            if k in targets and n != 1 and not lossy:
                res.add("who", dict(sig, kind="missed" if n == 0 else "duplicate"),
                        "node %o (level %d, allows multicast) dequeued message %d of a burst of %d multicasts from %o to level %d %d times (multicast() returned %r)"
                        % (k, netref.level(k), msgs.index((t, d)) + 1, len(msgs), src, L, n, c.result))
            elif k not in targets and n:
                res.add("who" if allow.get(k, True) else "deaf", dict(sig, kind="wrong_receiver", is_sender=k == src),
                        "node %o (level %d, allow_multicast %s) dequeued a multicast sent by %o to level %d" % (k, netref.level(k), allow[k], src, L))
        other = [g for g in got if (g[0], g[1], g[2]) not in [(src, t, d) for (t, d) in msgs]]
        if other:
            res.add("who", dict(sig, kind="garbled"), "node %o dequeued %r" % (k, [(oct(g[0]), g[1], len(g[2])) for g in other]))


def same_class(a, b):
    def key(x):
        return (x.get("kind"), x.get("sender_class"), x.get("own_level"), x.get("level") == 4, x.get("burst"), x.get("same_type"), x.get("slow_readers"))
    return key(a) == key(b)
