"""C08 - RX/TX switching preserves the user's pipe-0 address and ACK reception.

UUT = RF24 (or rf24_lite, for C20) on its chip; a peer RF24 on a second chip is used only for probes.
Reference model: three variables (user's pipe-0 address or closed, TX address, role).

Clauses:
  rx_pipe0  whenever the radio enters RX mode (listen = True returns): pipe 0 is enabled on the address the
            user last opened it with (compared over the bytes the user wrote), or disabled if never opened /
            closed; a probe packet from the peer to the user's address arrives on pipe 0 and a probe to the TX
            address does not (full-length addresses only)
  tx_ack    right after open_tx_pipe() in TX mode (entered with listen = False) with auto-ack on pipe 0:
            pipe 0 is enabled on the TX address, and send() to a listening peer returns True (M2)
  ce        CE is low at every CONFIG write that changes PRIM_RX, and is never lowered between listen = True
            returning and the next role change
"""
from nrfsim.core import SimAbort, stream, MS
from nrfsim.harness import Result
from nrfsim.mcu import World
from checks import common
from circuitpython_nrf24l01.rf24 import RF24
from circuitpython_nrf24l01.rf24_lite import RF24 as RF24Lite

PROP = "C08"
LEVEL = "exploration"
SYMS = ["rx0A", "rx0B", "rx1C", "close0", "txA", "txB", "txT", "aa3F", "aa3E", "aa00", "lisT", "lisF"]
SYMS_LITE = ["rx0A", "rx0B", "rx1C", "close0", "txA", "txB", "txT", "lisT", "lisF"]
RULE = ("breadth-first small-scope sweep: all sequences over the 12-symbol alphabet {open_rx_pipe(0,A|B), "
        "open_rx_pipe(1,C), close_rx_pipe(0), open_tx_pipe(A|B|T), auto_ack=0x3F|0x3E|0, listen=True|False} to depth 5 "
        "(quick) / 6 (thorough), seeded sequences to depth 12 beyond (these also with ack = True/False and power = False/True: waking a radio configured as a receiver is an RX entry); per run a seeded address width 3..5 and address "
        "family (distinct, TX sharing bytes with A, shorter than the width, TX equal to A) and a seeded cost of one SPI transaction (30 / 150 / 400 us). Non-trivial: an RX entry or "
        "a TX-mode open_tx_pipe was checked; distinct = distinct (sequence, address family, width)")
ASSUMPTIONS = ["chip/air model decision M2 (a PTX accepts an ACK only on enabled pipe 0 with RX_ADDR_P0 = TX_ADDR)",
               "for an address shorter than the address width only the written prefix is compared (the property does not define the rest)"]
CLAUSES = {"rx_pipe0": "on RX entry pipe 0 = user's address or closed, never the TX address (from the instant the receiver is active, not only when the call returns)",
           "tx_ack": "after open_tx_pipe() in TX mode ACKs are received", "ce": "CE low while changing role, high throughout RX"}
SHRINK_KEYS = ("ops",)
CHUNK = 300


def _nseq(depth, k=12):
    return sum(k ** d for d in range(1, depth + 1))


def count(tier):
    return _nseq(5) + 3000 if tier == "quick" else _nseq(6) + 40000


def exhaustive(tier):
    return False


def _decode(i, k=12):
    d = 1
    while i >= k ** d:
        i -= k ** d
        d += 1
    seq = []
    for _ in range(d):
        seq.append(i % k)
        i //= k
    return seq


def make(i, base_seed, tier, lite=False):
    seed = base_seed * 1_000_003 + i
    rng = stream(seed, "work")
    syms = SYMS_LITE if lite else SYMS
    depth = 5 if tier == "quick" else 6
    if lite:
        depth = min(depth, 5)
    n = _nseq(depth, len(syms))
    if i < n:
        ops = [syms[j] for j in _decode(i, len(syms))]
        kind = "bfs"
    else:
        # beyond the swept alphabet: ACK payloads switched on / off (`ack = True` also enables auto-ack on pipe 0)
        # ... and, for the full driver, the application's power switch: waking a radio whose CONFIG says "receiver" is an RX entry too
        # ... and a rejected open_rx_pipe(0, b"") (ValueError: nothing reaches the radio, nothing is remembered)
        ops = [rng.choice(syms + (["ackT", "ackT", "ackF", "pwrF", "pwrT", "pwrT", "rx0bad"] if not lite else ["ackT", "ackF", "rx0bad"])) for _ in range(rng.randint(5, 12))]
        kind = "random"
    # MCU personality: cost of one SPI transaction. With CircuitPython-class costs a single transaction outlasts the radio's
    # 130 us RX settling time, so the order of the register writes inside a role change becomes observable on the air
    return {"seed": seed, "ops": ops, "kind": kind, "aw": rng.choice([3, 4, 5]), "family": rng.randrange(4),
            "lite": lite, "backend": "busio" if lite else rng.choice(["spidev", "busio"]), "plus": rng.random() < 0.8,
            "spi_us": stream(seed, "mcu").choice([30, 30, 150, 400])}


def _addresses(scn):
    rng = stream(scn["seed"], "addr")
    aw = scn["aw"]
    A = bytes(rng.getrandbits(8) for _ in range(5))
    B = bytes(rng.getrandbits(8) for _ in range(5))
    C = bytes(rng.getrandbits(8) for _ in range(5))
    T = bytes(rng.getrandbits(8) for _ in range(5))
    fam = scn["family"]
    if fam == 1:
        T = A[:4] + bytes([A[4] ^ 0x55])      # equal over 3/4-byte widths, differs in the last byte
    elif fam == 2:
        n = max(1, aw - rng.randint(1, 2))
        A, B, T = A[:n], B[:n], T[:n]
    elif fam == 3:
        T = A
    return {"A": A, "B": B, "C": C, "T": T}


def run(scn):
    res = Result()
    w = World(scn["seed"], max_events=400_000, max_time=60_000 * MS, main_knobs={"spi_overhead_us": scn.get("spi_us", 30), "spi_jitter_us": 0})
    try:
        _run(scn, w, res)
    except SimAbort:
        pass
    finally:
        res.absorb_world(w)
        w.close()
    return res


def _run(scn, w, res):
    sim = w.sim
    lite = scn.get("lite", False)
    aw = scn["aw"]
    ad = _addresses(scn)
    ru = w.radio("U", plus=scn["plus"])
    uut = (RF24Lite if lite else RF24)(*w.bus(ru, backend=scn["backend"]))
    rp = w.radio("P")
    peer = RF24(*w.bus(rp))
    for d in (uut, peer):
        d.address_length = aw
    ru.ce_log = []
    user0, tx, role, aa = None, None, None, 0x3F
    p1 = None
    checked = 0
    tx_opened_in_rx = False

    def probe_rx(addr, expect_pipe0):
        """peer transmits one packet to `addr`; ground truth is the UUT chip's RX FIFO."""
        ru.rx_fifo.clear()
        peer.listen = False
        peer.open_tx_pipe(addr)
        peer.send(b"probe", force_retry=0)
        got = [p for (p, d) in ru.rx_fifo if d == b"probe"]
        ru.rx_fifo.clear()
        ru.flags = 0
        return got

    def full(a):
        return a is not None and len(a) >= aw

    for k, op in enumerate(scn["ops"]):
        mark = len(ru.ce_log)
        rmark = len(ru.rx_reconf)
        user0_before, tx_before = user0, tx
        woke_in_rx = False
        if op == "lisT":
            tx_opened_in_rx = False
        sim.log("call", "U", op)
        if op == "rx0bad":
            try:
                uut.open_rx_pipe(0, b"")
                res.add("rx_pipe0", {"kind": "empty_address_accepted"}, "open_rx_pipe(0, b'') did not raise")
            except ValueError:
                sim.count("rejected_open_rx_pipe")
        elif op.startswith("rx0"):
            uut.open_rx_pipe(0, ad[op[3]])
            user0 = ad[op[3]]
        elif op == "rx1C":
            uut.open_rx_pipe(1, ad["C"])
            p1 = ad["C"]
        elif op == "close0":
            uut.close_rx_pipe(0)
            user0 = None
        elif op.startswith("tx"):
            uut.open_tx_pipe(ad[op[2]])
            tx = ad[op[2]]
            if role == "rx":
                # documented: open_tx_pipe() appropriates pipe 0 with the TX address when auto-ack is on for pipe 0 - also on a
                # radio that is listening; what pipe 0 then holds until the next RX entry is the application's own doing
                tx_opened_in_rx = True
        elif op.startswith("aa"):
            aa = int(op[2:], 16)
            uut.auto_ack = aa
        elif op == "ackT":
            uut.ack = True
            aa |= 1               # documented: ACK payloads need (and switch on) auto-ack and dynamic payloads on pipe 0
        elif op == "ackF":
            uut.ack = False
        elif op == "pwrF":
            uut.power = False
            powered = False
        elif op == "pwrT":
            uut.power = True
            woke_in_rx = role == "rx" and not powered
            powered = True
        elif op == "lisT":
            uut.listen = True
            role = "rx"
            powered = True
        elif op == "lisF":
            uut.listen = False
            role = "tx"
            powered = True
        # ---- ce clause
        for ent in ru.ce_log[mark:]:
            if ent[1] == "config" and (ent[2] ^ ent[3]) & 1 and ent[4]:
                res.add("ce", {"kind": "role_change_with_ce_high", "op": op}, "CONFIG.PRIM_RX changed while CE was high during %s" % op)
            if ent[1] == "ce" and ent[2] is False and role == "rx" and not op.startswith("lis") and op != "pwrF":
                res.add("ce", {"kind": "ce_dropped_in_rx", "op": op}, "CE lowered by %s while in RX mode" % op)
        if role == "rx" and powered and not ru.ce:
            res.add("ce", {"kind": "ce_low_in_rx", "op": op}, "CE is low after %s although the radio is in RX mode" % op)
        # ---- rx_pipe0: on entering RX mode
        if op == "lisT" or (role == "rx" and not tx_opened_in_rx):
            # ... from the first instant of RX mode - and for as long as the radio stays in RX mode, whatever call is made there
            # (open_rx_pipe(0, ...) on a listening radio included): was pipe 0 re-addressed / closed *after* the active receiver had
            # been listening with it on the TX address?
            for (t_, what, old, new, active_ns, was_en) in ru.rx_reconf[rmark:]:
                if not was_en:
                    continue
                old_addr = bytes(ru.a[0x0A]) if what == "enable" else old
                on_tx = (tx_before is not None and old_addr[: min(aw, len(tx_before))] == tx_before[: min(aw, len(tx_before))]
                         and (user0 is None or user0[:aw] != tx_before[:aw]) and (user0_before is None or user0_before[:aw] != tx_before[:aw]))
                sim.count("rx_entry_transient_seen")
                if on_tx:
                    res.add("rx_pipe0", {"kind": "listened_on_tx_address_at_rx_entry" if op == "lisT" else "listened_on_tx_address_in_rx_mode", "how": what},
                            "%s: the receiver had been active for %d us with pipe 0 enabled on the TX address %s before pipe 0 was %s (one SPI transaction costs %d us here)"
                            % (op, active_ns // 1000, old_addr[:aw].hex(), "closed" if what == "enable" else "set to %s" % bytes(new)[:aw].hex(), scn.get("spi_us", 30)))
                    break
        if woke_in_rx:
            # power = True on a radio configured as a receiver: it is listening again - on whatever pipe 0 holds
            sim.count("woken_in_rx_mode")
            checked += 1
            if user0 is None and ru.r[2] & 1:
                res.add("rx_pipe0", {"kind": "open_but_never_opened_or_closed", "entry": "power"},
                        "pipe 0 is enabled on %s when the radio wakes up in RX mode although the user never opened it / closed it (TX address %s)"
                        % (ru.pipe_addr(0).hex(), tx.hex() if tx else None))
            elif user0 is not None and not tx_opened_in_rx and ru.r[2] & 1 and bytes(ru.a[0x0A][: len(user0)]) != user0:
                res.add("rx_pipe0", {"kind": "wrong_address", "is_tx": tx is not None and bytes(ru.a[0x0A][: len(tx)]) == tx, "entry": "power"},
                        "the radio wakes up in RX mode with pipe 0 on %s, user opened it with %s (TX address %s)" % (ru.pipe_addr(0).hex(), user0.hex(), tx.hex() if tx else None))
        if op == "lisT":
            checked += 1
            en0 = bool(ru.r[2] & 1)
            if user0 is None:
                if en0:
                    res.add("rx_pipe0", {"kind": "open_but_never_opened_or_closed"},
                            "pipe 0 is enabled on %s in RX mode although the user never opened it / closed it (TX address %s)"
                            % (ru.pipe_addr(0).hex(), tx.hex() if tx else None))
            else:
                reg = bytes(ru.a[0x0A][: len(user0)])
                if not en0:
                    res.add("rx_pipe0", {"kind": "closed_but_user_opened"}, "pipe 0 disabled in RX mode; user opened it with %s" % user0.hex())
                elif reg != user0:
                    res.add("rx_pipe0", {"kind": "wrong_address", "is_tx": tx is not None and reg == tx[: len(reg)]},
                            "pipe 0 listens on %s, user opened it with %s (TX address %s)" % (ru.pipe_addr(0).hex(), user0.hex(), tx.hex() if tx else None))
                elif full(user0):
                    got = probe_rx(user0[:aw], True)
                    # (a pipe without auto-ack stores every re-transmission of the probe: model decision M4)
                    if not got or set(got) != {0}:
                        res.add("rx_pipe0", {"kind": "probe_not_received"}, "probe to the user's pipe-0 address %s arrived on pipes %r" % (user0[:aw].hex(), got))
            if full(tx) and (user0 is None or not full(user0) or tx[:aw] != user0[:aw]) and (p1 is None or tx[:aw] != p1[:aw]):
                got = probe_rx(tx[:aw], False)
                if got:
                    res.add("rx_pipe0", {"kind": "listens_on_tx_address"}, "probe to the TX address %s was received on pipe %r in RX mode" % (tx[:aw].hex(), got))
        # ---- tx_ack: right after open_tx_pipe in TX mode with auto-ack on pipe 0
        if op.startswith("tx") and role == "tx" and powered and (aa & 1):
            checked += 1
            en0 = bool(ru.r[2] & 1)
            reg = bytes(ru.a[0x0A][: len(tx)])
            if not en0:
                res.add("tx_ack", {"kind": "pipe0_closed"}, "pipe 0 is disabled right after open_tx_pipe(%s) in TX mode with auto-ack" % tx.hex())
            elif reg != tx:
                res.add("tx_ack", {"kind": "pipe0_wrong_address"}, "RX_ADDR_P0 = %s after open_tx_pipe(%s)" % (ru.pipe_addr(0).hex(), tx.hex()))
            if full(tx):
                peer.open_rx_pipe(1, tx[:aw])
                peer.listen = True
                rp.rx_fifo.clear()
                ok = uut.send(b"ackme")
                delivered = any(d == b"ackme" for (_, d) in rp.rx_fifo)
                rp.rx_fifo.clear()
                peer.listen = False
                if not ok:
                    res.add("tx_ack", {"kind": "send_failed", "delivered": delivered},
                            "send() to a listening peer returned %r right after open_tx_pipe(%s); peer got the payload: %s" % (ok, tx.hex(), delivered))
        if res.violations:
            break
    res.nontrivial = checked > 0
    import hashlib
    res.isig = hashlib.blake2b(repr((scn["ops"], scn["family"], aw, lite)).encode(), digest_size=8).hexdigest()
    res.sample = {"ops": scn["ops"], "aw": aw, "family": scn["family"], "lite": lite}
