"""C15 - no received frame can crash a node or make it forward garbage.

UUT of every role (routing-only node, network node, unjoined mesh node, mesh master) at levels 0..4, alone on the
air with a scripted injector radio; its neighbours are absent, so every forwarding attempt runs into its time-outs
(the bounded-time clause is exercised on the slow path).  update() is called from the main task after each frame
(or after up to three frames).

Clauses:
  no_raise    update() returns normally
  bounded     virtual time per update() <= forwarding budget (derived from tx_timeout and the retry setup) + slack;
              the event cap is never hit
  dropped     frames shorter than a header or with an invalid origin/destination address produce no queue entry
              and no transmission
  valid_addr  is_address_valid(a) for all 65 536 values equals the documented predicate (direct evaluation; no
              simulation involved)
"""
from nrfsim.core import SimAbort, stream, MS, US
from nrfsim.harness import Result
from nrfsim.mcu import World, Injector
from checks import netref
from checks.netcommon import CLASSES
from circuitpython_nrf24l01.network.structs import is_address_valid

PROP = "C15"
LEVEL = "exploration"
ROLES = [("router", 0), ("router", 0o3), ("net", 0), ("net", 0o2), ("net", 0o12), ("net", 0o312), ("net", 0o4312), ("router", 0o44),
         ("mesh", 7), ("master", 0)]
LENS = [0, 1, 2, 3, 8, 23, 24]
DST_CLASSES = ["self", "child", "descendant", "parent_side", "multicast", "default", "invalid_digit", "invalid_5digits", "invalid_6digits"]
RULE = ("sweep: 256 message types x message lengths {0,1,2,3,8,23,24} x destination class {self, child, deeper descendant, "
        "parent side, 0o100, 0o4444, invalid digit, 5 digits, 6 digits} x origin {valid, invalid} x role/level (10 UUTs: "
        "routing-only, network node at levels 0..4, unjoined mesh node, mesh master) - quick: a seeded 4 % sample, thorough: "
        "complete; plus random byte strings of 1..32 bytes, sequences of 2-6 frames (fragment types included; complete fragment streams followed by repeats of their later fragments; an address response to relay with further frames waiting during the relay's 10 ms pause), and for the "
        "a third of the nodes re-addressed after construction, a third with multicast_relay on, a third next to a neighbour whose radio acknowledges while its application never runs (the master is then asked for an address through a node below that neighbour); for the master a run of MESH_ADDR_REQUESTs that exhausts one parent's children (the last ones refused) followed by unusable frames, and truncated/oversized MESH_ADDR_LOOKUP / MESH_ID_LOOKUP / MESH_ADDR_RELEASE / MESH_ADDR_REQUEST bodies with known "
        "and unknown ids; the validity predicate is evaluated for all 65 536 values (direct evaluation). Non-trivial: the frame "
        "reached the UUT's RX FIFO; distinct = distinct (role, frames, outcome)")
ASSUMPTIONS = ["documented validity predicate: 0, 0o100/0o10/0o1000, or one to four octal digits each in 1..5",
               "forwarding budget per frame: 2 x (one ESB cycle + tx_timeout) + documented relay delays; slack 50 ms + SPI time"]
CLAUSES = {"no_raise": "update() returns normally - it never raises", "bounded": "finishes in bounded time",
           "dropped": "short frames / invalid addresses are dropped without being queued or retransmitted",
           "valid_addr": "an address is valid only if it is 0, a reserved multicast address, or 1-4 octal digits each in 1..5"}
SHRINK_KEYS = ("frames",)
CHUNK = 150
NSWEEP = 256 * len(LENS) * len(DST_CLASSES) * 2 * len(ROLES)


def count(tier):
    if tier == "quick":
        return 1 + NSWEEP // 25 + 4000
    return 1 + NSWEEP + 60000


def exhaustive(tier):
    return False


def _dst(cls, addr, rng):
    lv = netref.level(addr) if addr != 0o4444 else 4
    if cls == "self":
        return addr
    if cls == "child":
        return (addr | (rng.randint(1, 5) << (3 * lv))) if lv < 4 else addr
    if cls == "descendant":
        if lv < 3:
            return addr | (rng.randint(1, 5) << (3 * lv)) | (rng.randint(1, 5) << (3 * (lv + 1)))
        return addr
    if cls == "parent_side":
        if addr == 0:
            return 0
        c = [0, netref.parent(addr), (addr & ~7) | ((addr & 7) % 5 + 1)]
        return rng.choice(c)
    if cls == "multicast":
        return 0o100
    if cls == "default":
        return 0o4444
    if cls == "invalid_digit":
        return rng.choice([0o6, 0o7, 0o70, 0o105, 0o1006, 0o50, 0o507, 0o4440])
    if cls == "invalid_5digits":
        return rng.choice([0o11111, 0o54321, 0o12345, 0o55555])
    return rng.choice([0o111111, 0o154321])


def _sweep_case(j, rng):
    typ = j % 256
    j //= 256
    ln = LENS[j % len(LENS)]
    j //= len(LENS)
    dc = DST_CLASSES[j % len(DST_CLASSES)]
    j //= len(DST_CLASSES)
    org_valid = bool(j % 2)
    j //= 2
    role = ROLES[j % len(ROLES)]
    return role, typ, ln, dc, org_valid


def _frame(rng, addr, typ, ln, dc, org_valid):
    to = _dst(dc, addr, rng)
    frm = rng.choice([0, 0o1, 0o5, 0o23, 0o4444, 0o3312]) if org_valid else rng.choice([0o6, 0o70, 0o11111, 0o7777, 0o60001])
    return {"hdr": [frm, to, rng.getrandbits(16), typ, rng.choice([0, 1, 2, 3, 7, 200, rng.getrandbits(8)])],
            "msg": bytes(rng.getrandbits(8) for _ in range(ln)).hex(), "pipe": rng.randrange(6), "ack": rng.random() < 0.3}


def make(i, base_seed, tier):
    seed = base_seed * 1_000_003 + i
    rng = stream(seed, "work")
    if i == 0:
        return {"seed": seed, "kind": "valid_addr"}
    nsw = NSWEEP // 25 if tier == "quick" else NSWEEP
    if i <= nsw:
        j = (i - 1) if tier == "thorough" else rng.randrange(NSWEEP)
        role, typ, ln, dc, ov = _sweep_case(j, rng)
        addr = 0o4444 if role[0] == "mesh" else (0 if role[0] == "master" else role[1])
        return {"seed": seed, "kind": "sweep", "role": list(role), "frames": [_frame(rng, addr, typ, ln, dc, ov)], "batch": 1}
    role = rng.choice(ROLES)
    addr = 0o4444 if role[0] == "mesh" else (0 if role[0] == "master" else role[1])
    frames = []
    k = rng.random()
    if k < 0.3:
        for _ in range(rng.randint(1, 4)):
            frames.append({"raw": bytes(rng.getrandbits(8) for _ in range(rng.randint(1, 32))).hex(), "pipe": rng.randrange(6), "ack": rng.random() < 0.3})
    elif k < 0.6 or role[0] != "master":
        for _ in range(rng.randint(2, 6)):
            typ = rng.choice([148, 149, 150, 193, 194, 195, 128, 130, 131, 196, 197, 198, rng.getrandbits(8)])
            frames.append(_frame(rng, addr, typ, rng.choice(LENS), rng.choice(DST_CLASSES), rng.random() < 0.8))
    elif k < 0.68:
        # master: one parent's children all leased, one more request that has to be refused, then unusable frames
        via = rng.choice([0o4444, 0o4444, 0o1, 0o3, 0o23])
        ids = rng.sample(range(1, 256), 8)
        for n in range(rng.randint(5, 8)):
            frames.append({"hdr": [via, 0, rng.getrandbits(16), 195, ids[n]], "msg": "", "pipe": rng.randrange(6), "ack": False})
        for _ in range(rng.randint(1, 3)):
            if rng.random() < 0.3:
                frames.append({"raw": bytes(rng.getrandbits(8) for _ in range(rng.randint(1, 32))).hex(), "pipe": rng.randrange(6), "ack": False})
            else:
                frames.append(_frame(rng, addr, rng.choice([0, 65, 130, 195, 196, 197, 198, rng.getrandbits(8)]), rng.choice(LENS),
                                     rng.choice(DST_CLASSES), rng.random() < 0.4))
        return _extras({"seed": seed, "kind": "seq", "role": list(role), "frames": frames, "batch": 1}, seed, role)
    else:
        # master: mesh system messages with hostile bodies
        ids = [rng.randint(1, 255) for _ in range(2)]
        for _ in range(rng.randint(1, 6)):
            typ = rng.choice([195, 195, 196, 197, 198])
            frm = rng.choice([0o4444, 0o1, 0o3, 0o23, 0o123, 0])
            if typ == 197:
                # releases from addresses the master has probably just leased (it hands out 5, 4, 3, ... first)
                frm = rng.choice([0o5, 0o4, 0o3, 0o41, 0o43, 0o5, 0o4, 0o4444, 0o2])
            elif typ == 195 and rng.random() < 0.5:
                frm = 0o4444
            body = bytes(rng.getrandbits(8) for _ in range(rng.choice([0, 0, 1, 2, 3, 4, 24])))
            if typ == 196 and rng.random() < 0.5:
                body = bytes([rng.choice(ids + [0, 255])])
            if typ == 198 and rng.random() < 0.5:
                body = bytes([rng.choice([1, 3, 0o23 & 0xFF]), 0])
            frames.append({"hdr": [frm, 0, rng.getrandbits(16), typ, rng.choice(ids + [0])], "msg": body.hex(), "pipe": rng.randrange(6), "ack": rng.random() < 0.3})
    scn = {"seed": seed, "kind": "seq", "role": list(role), "frames": frames, "batch": rng.choice([1, 1, 2, 3])}
    xq = stream(seed, "relay_gap")
    if role[0] in ("net", "router") and role[1] and xq.random() < 0.25:
        # a joined node relays an address response to the unassigned-node address twice, 10 ms apart; the next frame(s) - invalid ones
        # among them - are already waiting in its radio during that pause
        resp = {"hdr": [0, addr, xq.getrandbits(16), 128, xq.randint(1, 255)], "msg": bytes([xq.randint(1, 5) | 8 * (addr & 7), 0]).hex(), "pipe": 0 if False else xq.choice([1, 1, 0]), "ack": False}
        follow = [_frame(xq, addr, xq.choice([0, 1, 65, 128, 148, 195, xq.getrandbits(8)]), xq.choice(LENS), xq.choice(DST_CLASSES), xq.random() < 0.5)
                  for _ in range(xq.randint(1, 2))]
        if xq.random() < 0.3:
            follow.insert(0, {"raw": bytes(xq.getrandbits(8) for _ in range(xq.randint(1, 32))).hex(), "pipe": xq.randrange(6), "ack": False})
        scn["frames"] = [resp] + follow
        scn["batch"] = len(scn["frames"])
    elif role[0] in ("net", "master", "mesh") and xq.random() < 0.15:
        # a complete fragmented message for the node, then fragments of the same stream again (its sender did not hear the last
        # acknowledgement and repeats) or strays with that id - in one update() or in separate ones
        fid, frm, typ = xq.getrandbits(16), xq.choice([0o1, 0o3, 0o23, 0]) if addr not in (0o1, 0o3, 0o23) else 0o5, xq.choice([0, 1, 65, 127])
        n = xq.randint(2, 4)
        body = lambda: bytes(xq.getrandbits(8) for _ in range(24)).hex()
        stream_ = [{"hdr": [frm, addr, fid, 148, n], "msg": body(), "pipe": xq.randrange(1, 6), "ack": False}]
        for k_ in range(n - 2, 0, -1):
            stream_.append({"hdr": [frm, addr, fid, 149, k_ + 1], "msg": body(), "pipe": xq.randrange(1, 6), "ack": False})
        stream_.append({"hdr": [frm, addr, fid, 150, typ], "msg": body()[: 2 * xq.randint(1, 24)], "pipe": xq.randrange(1, 6), "ack": False})
        tail = [dict(xq.choice(stream_[1:])) for _ in range(xq.randint(1, 3))]
        scn["frames"] = stream_ + tail
        scn["batch"] = xq.choice([1, 1, 3])
    return _extras(scn, seed, role)


def _extras(scn, seed, role):
    """history and neighbourhood of the node under test"""
    xr = stream(seed, "ext")
    if role[0] in ("net", "router") and xr.random() < 0.3:
        # constructed with another address (any level) and re-addressed before the frames arrive
        lv = xr.randint(0, 4)
        scn["first_addr"] = sum(xr.randint(1, 5) << (3 * d) for d in range(lv))
    if role[0] in ("net", "mesh", "master") and xr.random() < 0.3:
        scn["relay"] = True           # multicast_relay switched on
    # MCU personality of the node under test: cost of one SPI transaction and of one clock reading
    scn["mcu"] = {"spi_overhead_us": xr.choice([5, 30, 30, 150, 400]), "clock_us": xr.choice([1, 5, 50, 300]), "spi_jitter_us": 0}
    if xr.random() < 0.35:
        # a neighbour whose radio acknowledges but whose application never runs (a child, for nodes below the master sometimes the
        # parent): transmissions toward it succeed on the link and nothing ever comes back
        addr = 0o4444 if role[0] == "mesh" else (0 if role[0] == "master" else role[1])
        lvn = netref.level(addr) if addr != 0o4444 else 4
        if lvn < 4:
            scn["listener"] = addr | (xr.randint(1, 5) << (3 * lvn))
        if addr not in (0, 0o4444) and xr.random() < 0.4:
            scn["listener"] = netref.parent(addr)
        if "listener" in scn and role[0] == "master" and xr.random() < 0.6:
            # ... and the master is asked for an address through a node below that neighbour (its reply is routed)
            via = scn["listener"] | (xr.randint(1, 5) << 3)
            scn["frames"].insert(xr.randint(0, len(scn["frames"])), {"hdr": [via, 0, xr.getrandbits(16), 195, xr.randint(1, 255)], "msg": "", "pipe": scn["listener"] & 7, "ack": False})
    return scn


def run(scn):
    res = Result()
    if scn["kind"] == "valid_addr":
        bad = [a for a in range(65536) if bool(is_address_valid(a)) != netref.valid_addr_doc(a)]
        if bad:
            res.add("valid_addr", {"kind": "predicate", "digits": max(netref.level(a) for a in bad)},
                    "is_address_valid disagrees with the documented predicate for %d values, e.g. %s" % (len(bad), [oct(a) for a in bad[:6]]))
        res.nontrivial = True
        res.isig = "valid_addr"
        res.count("direct_evaluation:addresses", 65536)
        res.sample = {"kind": "valid_addr", "evaluated": 65536}
        return res
    w = World(scn["seed"], max_events=1_500_000, max_time=120_000 * MS, main_knobs=scn.get("mcu"))
    try:
        _run(scn, w, res)
    except SimAbort:
        if w.sim.cap_hit in ("events", "time"):
            res.add("bounded", {"kind": "no_termination"}, "simulation cap hit inside update()")
            w.sim.cap_hit = None
    finally:
        res.absorb_world(w)
        w.close()
    return res


def _run(scn, w, res):
    sim = w.sim
    cls, arg = scn["role"]
    ru = w.radio("U")
    try:
        if scn.get("first_addr") is not None and cls in ("net", "router"):
            uut = CLASSES[cls](*w.bus(ru), scn["first_addr"])
            uut.node_address = arg
            sim.count("readdressed")
        else:
            uut = CLASSES[cls](*w.bus(ru), arg)
    except SimAbort:
        raise
    except Exception as e:
        import traceback
        res.add("no_raise", {"kind": "construction_raised", "exc": type(e).__name__, "role": cls},
                "constructing / addressing %s(%o) raised %r on an MCU with %r\n%s" % (cls, arg, e, scn.get("mcu"), traceback.format_exc()[-600:]))
        return
    if scn.get("relay") and hasattr(uut, "multicast_relay"):
        uut.multicast_relay = True
    if scn.get("listener") is not None:
        from circuitpython_nrf24l01.rf24_network import RF24Network as _Net
        _Net(*w.bus(w.radio("L")), scn["listener"])      # acknowledging neighbour; its application never runs
        sim.count("acknowledging_neighbour")
    addr = uut.node_address
    inj = Injector(w, "INJ", channel=ru.r[5], rate=1, aw=5, crc=2, esb=True, dpl=True)
    arc = ru.r[4] & 0xF
    ard = ((ru.r[4] >> 4) + 1) * 250 * US
    per_frame = 2 * (130 * US + (1 + arc) * (ard + 500 * US) + uut.tx_timeout * MS * 1.05) + 12 * MS
    per_frame += 400 * (sim.main.mcu.spi_overhead + sim.main.mcu.clock_ns)      # the node's own bus / clock costs (a few hundred transactions per frame)
    if scn.get("listener") is not None:
        per_frame += uut.route_timeout * MS * 1.05      # a routed reply accepted by the neighbour is followed by a wait for its NETWORK_ACK
    got_any = 0
    outcomes = []
    batch = scn.get("batch", 1)
    pend = []
    for idx, fr in enumerate(scn["frames"]):
        if "raw" in fr:
            data = bytes.fromhex(fr["raw"])
            hdr = None
        else:
            hdr = fr["hdr"]
            data = netref.pack_header(*hdr) + bytes.fromhex(fr["msg"])
        data = data[:32]
        before = len(ru.rx_fifo)
        inj.send(ru.pipe_addr(fr["pipe"]), data, want_ack=fr.get("ack", False))
        if len(ru.rx_fifo) > before:
            got_any += 1
            pend.append((hdr, data))
        if len(pend) < batch and idx != len(scn["frames"]) - 1:
            continue
        q0 = len(uut.queue)
        a0 = len(w.air.trace)
        t0 = sim.now
        sim.log("update", "U", len(pend))
        try:
            uut.update()
            # a second call picks up whatever the first one left (update() returns early on system types)
            for _ in range(4):
                if not ru.rx_fifo:
                    break
                uut.update()
        except SimAbort:
            raise
        except Exception as e:
            import traceback
            tb = traceback.format_exc().strip().splitlines()
            where = next((l.strip() for l in reversed(tb) if "circuitpython_nrf24l01" in l), "")
            res.add("no_raise", {"kind": "update_raised", "exc": type(e).__name__, "role": cls, "where": where.split(",")[-1].strip()},
                    "update() on %s(%o) raised %r for frame(s) %r\n%s" % (cls, addr, e, [(h, d.hex()) for h, d in pend], "\n".join(tb[-6:])))
            return
        dt = sim.now - t0
        sent = [t for t in w.air.trace[a0:] if t["src"] == "U" and not t["ack"]]
        # ---- whatever the node transmits in reaction to these frames stems from them (forwarded frame, NETWORK_ACK, poll or
        # mesh reply all keep the frame id): nothing left over from an earlier update() goes out
        ids = {(d[4] | (d[5] << 8)) for (_, d) in pend if len(d) >= 8}
        byid = {(d[0] | (d[1] << 8), d[4] | (d[5] << 8), d[6]): d for (_, d) in pend if len(d) >= 8}
        for t in sent:
            # a frame passed on keeps origin, id and type - and every byte of its body (nothing of an earlier frame is appended)
            k_ = (t["data"][0] | (t["data"][1] << 8), t["data"][4] | (t["data"][5] << 8), t["data"][6]) if len(t["data"]) >= 8 else None
            if k_ in byid and (t["data"][2] | (t["data"][3] << 8)) == (byid[k_][2] | (byid[k_][3] << 8)) and bytes(t["data"]) != bytes(byid[k_]):
                res.add("dropped", {"kind": "forwarded_frame_altered", "role": cls},
                        "%s(%o) received %s and passed on %s" % (cls, addr, bytes(byid[k_]).hex(), bytes(t["data"]).hex()))
                break
        for t in sent:
            # ... and a frame that had to be dropped (invalid origin / destination) is never the one that goes out, whatever else the
            # node was doing when it arrived
            k_ = (t["data"][0] | (t["data"][1] << 8), t["data"][4] | (t["data"][5] << 8), t["data"][6]) if len(t["data"]) >= 8 else None
            if k_ in byid and bytes(t["data"]) == bytes(byid[k_]) and (not netref.valid_addr_doc(h_to(byid[k_])) or not netref.valid_addr_doc(h_from(byid[k_]))) \
                    and sum(1 for (_, d) in pend if len(d) >= 8 and (d[0] | (d[1] << 8), d[4] | (d[5] << 8), d[6]) == k_) == 1:
                res.add("dropped", {"kind": "invalid_frame_transmitted", "role": cls},
                        "%s(%o) transmitted the frame %s, whose origin / destination address is invalid" % (cls, addr, bytes(t["data"]).hex()))
                break
        for t in sent:
            if len(t["data"]) >= 8 and (t["data"][4] | (t["data"][5] << 8)) not in ids:
                res.add("dropped", {"kind": "stale_frame_transmitted", "role": cls},
                        "%s(%o) transmitted frame %s (id %d) in reaction to frame(s) with ids %r" % (cls, addr, t["data"][:10].hex(), t["data"][4] | (t["data"][5] << 8), sorted(ids)))
                break
        queued = len(uut.queue) - q0
        outcomes.append((queued, len(sent) > 0))
        bound = max(1, len(pend)) * 5 * per_frame + 50 * MS
        if dt > bound:
            res.add("bounded", {"kind": "too_long", "role": cls}, "update() took %d us for %d frame(s), budget %d us" % (dt // US, len(pend), bound // US))
        # ---- dropped
        must_drop = all(len(d) < 8 or not netref.valid_addr_doc(h_to(d)) or not netref.valid_addr_doc(h_from(d)) for (_, d) in pend) and pend
        if must_drop and (queued or sent):
            res.add("dropped", {"kind": "not_dropped", "queued": bool(queued), "transmitted": bool(sent)},
                    "frame(s) %r (short or invalid address) caused %d queue entries and %d transmissions" % ([d.hex() for _, d in pend], queued, len(sent)))
        while len(uut.queue):
            uut.queue.dequeue()
        pend = []
        if res.violations:
            return
    res.nontrivial = got_any > 0
    import hashlib
    res.isig = hashlib.blake2b(repr((scn["role"], [(f.get("hdr"), f.get("raw"), len(f.get("msg", ""))) for f in scn["frames"]], outcomes)).encode(), digest_size=8).hexdigest()
    res.sample = {"role": scn["role"], "frames": [f.get("hdr") or f.get("raw") for f in scn["frames"]][:4], "outcomes": outcomes[:4]}


def h_to(d):
    return d[2] | (d[3] << 8)


def h_from(d):
    return d[0] | (d[1] << 8)


def same_class(a, b):
    return (a.get("kind"), a.get("exc"), a.get("where")) == (b.get("kind"), b.get("exc"), b.get("where"))
