"""Helpers shared by the link-level checks (C01, C02, C08, C10, C20)."""
import sys

import os
_R = os.environ.get("VERIF_REPO_ROOT", "/repo")
sys.path.insert(0, _R) if _R not in sys.path else None

from nrfsim.mcu import World  # noqa: E402
from nrfsim.core import stream  # noqa: E402
from circuitpython_nrf24l01.rf24 import RF24  # noqa: E402
from circuitpython_nrf24l01.rf24_lite import RF24 as RF24Lite  # noqa: E402

BOUNDARY_LENS = [0, 1, 2, 5, 8, 16, 24, 25, 31, 32, 33, 40]


def hx(b):
    return bytes(b).hex()


def unhx(s):
    return bytes.fromhex(s)


def rand_payload(rng, n):
    k = rng.random()
    if k < 0.1:
        return bytes(n)
    if k < 0.2:
        return b"\xff" * n
    if k < 0.3 and n > 1:
        z = rng.randrange(1, n)
        return bytes(rng.getrandbits(8) for _ in range(n - z)) + bytes(z)
    return bytes(rng.getrandbits(8) for _ in range(n))


def rand_len(rng, lo=0, hi=40):
    if rng.random() < 0.5:
        c = [x for x in BOUNDARY_LENS if lo <= x <= hi]
        return rng.choice(c)
    return rng.randint(lo, hi)


def rand_link_cfg(rng, lite_tx=False, lite_rx=False, allow_noack_cfg=True):
    """A compatible (TX, RX) configuration in the sense of C01's premise."""
    lite = lite_tx or lite_rx
    aw = rng.choice([3, 4, 5])
    p1 = bytes(rng.getrandbits(8) for _ in range(5))
    pipe = rng.randrange(6)
    if pipe < 2:
        addr = bytes(rng.getrandbits(8) for _ in range(5))
        if pipe == 1:
            p1 = addr
    else:
        b0 = rng.getrandbits(8)
        while b0 == p1[0]:
            b0 = rng.getrandbits(8)
        addr = bytes([b0]) + p1[1:]
    if pipe == 0 and addr[:aw] == p1[:aw]:
        addr = bytes([addr[0] ^ 1]) + addr[1:]
    crc = 2 if lite else rng.choice([0, 1, 2, 2])
    auto_ack = True if lite else (False if crc == 0 else rng.random() < 0.8)
    dyn = rng.random() < 0.5
    cfg = {
        "channel": rng.choice([0, 1, 76, 125, rng.randrange(126)]),
        "rate": rng.choice([1, 2, 250]),
        "crc": crc, "aw": aw, "pipe": pipe, "addr": addr.hex(), "p1": p1.hex(),
        "dyn": dyn, "static_len": rng.choice([1, 2, 8, 31, 32, rng.randint(1, 32)]),
        "auto_ack": auto_ack,
        "allow_ask_no_ack": True if lite else (rng.random() < 0.8 if allow_noack_cfg else True),
        "trunc_addr": rng.random() < 0.5,
        "tx": {"cls": "lite" if lite_tx else "full", "backend": "busio" if lite_tx else rng.choice(["spidev", "busio"]),
               "plus": rng.random() < 0.8},
        "rx": {"cls": "lite" if lite_rx else "full", "backend": "busio" if lite_rx else rng.choice(["spidev", "busio"]),
               "plus": rng.random() < 0.8},
    }
    return cfg


def make_driver(w, name, side, mcu=None):
    radio = w.radio(name, plus=side["plus"])
    args = w.bus(radio, mcu=mcu, backend=side["backend"])
    drv = (RF24Lite if side["cls"] == "lite" else RF24)(*args)
    return radio, drv


def apply_common(drv, cfg, lite):
    drv.channel = cfg["channel"]
    drv.data_rate = cfg["rate"]
    drv.address_length = cfg["aw"]
    if lite:
        drv.dynamic_payloads = cfg["dyn"]
        drv.payload_length = cfg["static_len"]
    else:
        drv.crc = cfg["crc"]
        drv.auto_ack = cfg["auto_ack"]
        drv.dynamic_payloads = cfg["dyn"]
        drv.payload_length = cfg["static_len"]
        drv.allow_ask_no_ack = cfg["allow_ask_no_ack"]


def setup_link(w, cfg, tx_mcu=None, rx_mcu=None, tx_name="T", rx_name="R"):
    """Build TX and RX drivers on two chips and configure them compatibly via the public API."""
    rt, tx = make_driver(w, tx_name, cfg["tx"], tx_mcu)
    rr, rx = make_driver(w, rx_name, cfg["rx"], rx_mcu)
    # configuration history: a side may have been configured differently before the configuration under test
    pre = cfg.get("pre") or {}
    if pre.get("tx"):
        apply_common(tx, pre["tx"], cfg["tx"]["cls"] == "lite")
    if pre.get("rx"):
        apply_common(rx, pre["rx"], cfg["rx"]["cls"] == "lite")
    apply_common(tx, cfg, cfg["tx"]["cls"] == "lite")
    apply_common(rx, cfg, cfg["rx"]["cls"] == "lite")
    addr = bytes.fromhex(cfg["addr"])
    p1 = bytes.fromhex(cfg["p1"])
    n = cfg["aw"] if cfg.get("trunc_addr") else 5
    if cfg["pipe"] >= 2:
        rx.open_rx_pipe(1, p1[:n])
    rx.open_rx_pipe(cfg["pipe"], addr[:n])
    if cfg.get("alt"):
        # a second receiving pipe of the same peer (the transmitter re-targets to it in mid-run)
        if cfg["alt"]["pipe"] >= 2 and cfg["pipe"] < 2 and cfg["pipe"] != 1:
            rx.open_rx_pipe(1, p1[:n])
        rx.open_rx_pipe(cfg["alt"]["pipe"], bytes.fromhex(cfg["alt"]["addr"])[:n])
    rx.listen = True
    tx.open_tx_pipe(addr[:n])
    tx.listen = False
    return rt, tx, rr, rx


def expected_payload(cfg, buf):
    if cfg["dyn"]:
        return bytes(buf)
    n = cfg["static_len"]
    return (bytes(buf) + bytes(n))[:n]


def tx_uploads(spi_log, since=0):
    """W_TX_PAYLOAD / W_TX_PAYLOAD_NOACK commands found in a chip's SPI log."""
    return [(t, o[0], o[1:]) for (t, o) in spi_log[since:] if o and o[0] in (0xA0, 0xB0)]


def drop_ordinals(rng, horizon, p, max_run=5):
    """Explicit fault rules: drop the transmissions with these global ordinals; never more than
    `max_run` consecutive ordinals, so that a retransmitting link always gets through."""
    rules, run = [], 0
    for n in range(horizon):
        if rng.random() < p and run < max_run:
            rules.append({"n": n})
            run += 1
        else:
            run = 0
    return rules
