"""C10 - FIFO and status accessors report the radio's true state.

UUT RF24 (or rf24_lite for C20) + a peer RF24 generating traffic through the simulated air (payloads on
different pipes / lengths, ACK payloads both ways, failed transmissions, FIFO overflow).  The chip model's
FIFOs, flags and OBSERVE_TX are the ground truth.

Clauses:
  accessors  after update() (or when the accessor performs its own transaction) with the peer quiescent:
             available(), pipe, any(), fifo(all argument forms), tx_full, irq_dr/ds/df equal the chip's state
  read       read() returns the head payload, removes exactly it and clears only RX_DR
  clear      clear_status_flags(a, b, c) clears exactly the requested flags
  flush      flush_rx()/flush_tx() empty exactly the respective FIFO and touch neither the other nor the flags
  arc        last_tx_arc equals the retransmissions of the radio's last transmit cycle
  irq        after interrupt_config(dr, ds, df) the IRQ line is asserted <=> an enabled event flag is latched
"""
from nrfsim.core import SimAbort, stream, MS
from nrfsim.harness import Result
from nrfsim.mcu import World
from checks import common
from checks.common import hx, unhx
from circuitpython_nrf24l01.rf24 import RF24
from circuitpython_nrf24l01.rf24_lite import RF24 as RF24Lite

PROP = "C10"
LEVEL = "exploration"
RULE = ("seeded histories (5..30 steps) interleaving traffic steps - peer sends to one of the UUT's pipes with a "
        "seeded length, UUT sends to a listening or deaf peer, TX FIFO pre-loading with write_only, ACK payloads "
        "loaded on either side, power cycles, leaving and re-entering the mode, read-only get_payload_length(pipe) queries - with every accessor call and argument form; dynamic, per-pipe static and mixed (dynamic on some pipes only) payload "
        "modes. Non-trivial: at least one payload entered a FIFO of the UUT; distinct = distinct abstract event "
        "sequences")
ASSUMPTIONS = ["chip model decisions M1 (cached STATUS is pre-command, hence cached attributes are compared after update()), M5, M6",
               "read() is only generated with the default length (exact-length reads)",
               "right after read() only `pipe` is compared without update(): read() ends with a transaction that samples the STATUS byte after the payload has left the FIFO"]
CLAUSES = {"accessors": "describe the radio's actual FIFO occupancy, next payload's pipe and length, latched events",
           "read": "removes exactly the payload it returns and clears only the data-ready flag",
           "clear": "clears exactly the requested flags", "flush": "empty exactly the respective FIFO",
           "arc": "last_tx_arc equals the number of retransmissions of the last packet",
           "irq": "IRQ line asserts for exactly the enabled events"}
PROBES = ["rx_fifo_full_drop", "max_rt"]
SHRINK_KEYS = ("ops",)
CHUNK = 60

ACC = ["update", "available", "pipe", "any", "read", "fifo", "tx_full", "irq", "clear", "flush_rx", "flush_tx",
       "last_tx_arc", "interrupt_config", "power_cycle", "mode_cycle"]


def count(tier):
    return 2500 if tier == "quick" else 80000


def exhaustive(tier):
    return False


def make(i, base_seed, tier, lite=False):
    seed = base_seed * 1_000_003 + i
    rng = stream(seed, "work")
    dyn = rng.random() < 0.6
    scn = {"seed": seed, "lite": lite, "dyn": dyn, "plus": rng.random() < 0.8,
           "backend": "busio" if lite else rng.choice(["spidev", "busio"]),
           "pl": [rng.choice([1, 5, 8, 16, 32, rng.randint(1, 32)]) for _ in range(6)],
           "pipes": sorted(rng.sample(range(6), rng.randint(1, 4)) + [1]), "ackpl": dyn and rng.random() < 0.5,
           "arc": rng.choice([0, 1, 2, 3, 5, 7, 8, 9, 12, 15])}
    if lite:
        scn["pl"] = [scn["pl"][0]] * 6
    scn["pipes"] = sorted(set(scn["pipes"]))
    xr = stream(seed, "ext")
    if not lite and xr.random() < 0.15:
        # dynamic payloads per pipe (the attribute takes a mask / list): some pipes dynamic, the others - pipe 0 among them in most of
        # the masks - on their static lengths; what the next payload's length is follows the pipe it arrived on
        scn["dynmask"] = xr.choice([0x3E, 0x3E, 0x02, 0x22, 0x14, 0x2A, 0x01, 0x03, 0x2D])
        scn["ackpl"] = False
    ops = []
    for _ in range(rng.randint(5, 30)):
        k = rng.random()
        if k < 0.22:
            ops.append({"op": "peer_send", "pipe": rng.choice(scn["pipes"]), "n": rng.randint(1, 32), "seed": rng.getrandbits(16)})
        elif k < 0.32:
            ops.append({"op": "uut_send", "n": rng.randint(1, 32), "deaf": rng.random() < 0.4, "seed": rng.getrandbits(16),
                        "so": rng.random() < 0.5})
        elif k < 0.38:
            ops.append({"op": "uut_preload", "n": rng.randint(1, 32), "seed": rng.getrandbits(16)})
        elif k < 0.45 and scn["ackpl"]:
            ops.append({"op": rng.choice(["uut_load_ack", "peer_load_ack"]), "pipe": rng.choice(scn["pipes"]), "n": rng.randint(1, 32),
                        "seed": rng.getrandbits(16)})
        else:
            a = rng.choice(ACC if lite else ACC + ["get_pl", "set_arc"])
            op = {"op": a}
            if a == "get_pl":
                op["pipe"] = rng.randrange(6)
            elif a == "set_arc":
                op["v"] = rng.choice([0, 1, 2, 3, 5, 7, 8, 9, 12, 15])
            if a == "fifo":
                op["about_tx"] = rng.random() < 0.5
                op["check_empty"] = rng.choice([None, True, False])
            elif a in ("clear", "interrupt_config"):
                op["args"] = [rng.random() < 0.5 for _ in range(3)]
            ops.append(op)
    if not lite and not scn["ackpl"] and "dynmask" not in scn and xr.random() < 0.15:
        # ACK payloads switched on at run time (the radio had been used without them - with static lengths in half of these runs): from
        # then on pipe 0 is dynamic, acknowledgements may carry payloads, and the accessors go on describing the FIFOs as they are
        k_ = xr.randrange(len(ops) + 1)
        tail = []
        for _ in range(xr.randint(2, 6)):
            r_ = xr.random()
            if r_ < 0.3:
                tail.append({"op": "peer_load_ack", "pipe": 1, "n": xr.randint(1, 32), "seed": xr.getrandbits(16)})
            elif r_ < 0.6:
                tail.append({"op": "uut_send", "n": xr.randint(1, 32), "deaf": False, "seed": xr.getrandbits(16), "so": True})
            else:
                tail.append({"op": xr.choice(["any", "read", "available", "pipe", "update", "fifo"]), "about_tx": False, "check_empty": None})
        ops[k_:k_] = [{"op": "ack_on"}] + tail
    scn["ops"] = ops
    return scn


def _bytes(seed, n):
    r = stream(seed, "pl")
    return bytes(r.getrandbits(8) for _ in range(n))


def run(scn):
    res = Result()
    w = World(scn["seed"], max_events=600_000, max_time=120_000 * MS)
    try:
        _run(scn, w, res)
    except SimAbort:
        pass
    finally:
        res.absorb_world(w)
        w.close()
    return res


def _run(scn, w, res):
    sim = w.sim
    lite = scn.get("lite", False)
    ru = w.radio("U", plus=scn["plus"])
    uut = (RF24Lite if lite else RF24)(*w.bus(ru, backend=scn["backend"]))
    rp = w.radio("P")
    peer = RF24(*w.bus(rp))
    dyn = scn["dyn"]
    base = b"\xb1\xb2\xb3\xb4"
    addrs = {0: b"\x10" + base, 1: b"\x21" + base}
    for p in range(2, 6):
        addrs[p] = bytes([0x30 + p]) + base
    peer_addr = b"\x77\x66\x55\x44\x33"
    mask = scn.get("dynmask")
    for d in (uut, peer):
        d.dynamic_payloads = dyn
    if mask is not None:
        uut.dynamic_payloads = mask
        sim.count("per_pipe_dynamic_payloads")

    def dyn_rx(p):
        return dyn if mask is None else bool(mask >> p & 1)
    dyn_tx = dyn_rx(0)
    ack_now = bool(scn["ackpl"])
    if lite:
        uut.payload_length = scn["pl"][0]
    else:
        uut.payload_length = list(scn["pl"])
    uut.arc = scn["arc"]
    peer.arc = 2
    if scn["ackpl"]:
        uut.ack = True
        peer.ack = True
    for p in scn["pipes"]:
        uut.open_rx_pipe(p, addrs[p])
    peer.open_rx_pipe(1, peer_addr)
    uut.listen = True
    peer.listen = False
    mode = "rx"
    enabled = 0x70   # IRQ events enabled by interrupt_config (default: all)
    traffic = 0

    def set_mode(m):
        nonlocal mode
        if m == mode:
            return
        if m == "rx":
            peer.listen = False
            uut.listen = True
        else:
            uut.listen = False
            uut.open_tx_pipe(peer_addr)
            peer.listen = True
        mode = m

    def irq_check(where):
        want = bool(ru.flags & enabled)
        if ru.irq_active() != want:
            res.add("irq", {"kind": "irq_line", "where": where},
                    "IRQ line %s but flags=0x%02X and enabled events=0x%02X (CONFIG=0x%02X)" % ("asserted" if ru.irq_active() else "idle", ru.flags, enabled, ru.r[0]))

    def head():
        return ru.rx_fifo[0] if ru.rx_fifo else None

    def exp_len():
        h = head()
        if h is None:
            return 0
        return len(h[1]) if dyn_rx(h[0]) else scn["pl"][h[0]]

    def settle():
        """the accessor clauses are stated for a quiescent peer/medium: let autonomous radio activity end"""
        for _ in range(2000):
            if not (ru.txing or rp.txing or ru.acking or rp.acking or w.air.active):
                return
            sim.advance(100_000)

    for op in scn["ops"]:
        o = op["op"]
        settle()
        sim.log("call", "U", o)
        if o == "peer_send":
            set_mode("rx")
            n = op["n"] if dyn_rx(op["pipe"]) else scn["pl"][op["pipe"]]
            if mask is not None:
                peer.dynamic_payloads = dyn_rx(op["pipe"])
            peer.payload_length = n
            peer.open_tx_pipe(addrs[op["pipe"]])
            before = len(ru.rx_fifo)
            peer.send(_bytes(op["seed"], n))
            traffic += len(ru.rx_fifo) - before
        elif o == "uut_send":
            set_mode("tx")
            if op["deaf"]:
                peer.listen = False
            n = op["n"] if dyn_tx else scn["pl"][0]
            if mask is not None:
                peer.dynamic_payloads = dyn_tx
            peer.payload_length = n
            # refresh the cached STATUS first: after write(write_only=True) filled the TX FIFO the cached byte is
            # one transaction old (M1) and send() would spin forever on a write() that refused the payload -
            # outside C10 (and outside C02's send/resend-only histories); noted in DESIGN.md section 9
            uut.update()
            uut.send(_bytes(op["seed"], n), send_only=op["so"])
            if op["deaf"]:
                peer.listen = True
            traffic += 1
            for _ in range(8):   # keep the peer's RX FIFO drained
                if not peer.available():
                    break
                peer.read()
        elif o == "uut_preload":
            set_mode("tx")
            uut.ce_pin = False
            n = op["n"] if dyn_tx else scn["pl"][0]
            before = len(ru.tx_fifo)
            uut.write(_bytes(op["seed"], n), write_only=True)  # its return value is not part of C10
            traffic += 1
        elif o == "ack_on":
            if ack_now or lite:
                continue
            uut.ack = True           # documented: switches dynamic payloads and auto-ack on for pipe 0
            peer.ack = True
            peer.dynamic_payloads = True
            if mask is None:
                mask = 0x3F if dyn else 0
            mask |= 1
            dyn_tx = True
            ack_now = True
            sim.count("ack_payloads_enabled_at_run_time")
        elif o == "set_arc":
            uut.arc = op["v"]      # (a configuration change: what the last transmission needed stays what it was)
            got = uut.last_tx_arc
            if got != ru.arc_cnt:
                res.add("arc", {"kind": "last_tx_arc", "after": "arc_changed"}, "arc = %d, then last_tx_arc = %r; the radio's last cycle made %d retransmissions" % (op["v"], got, ru.arc_cnt))
        elif o in ("uut_load_ack", "peer_load_ack") and not ack_now:
            continue
        elif o == "uut_load_ack":
            set_mode("rx")
            before = len(ru.tx_fifo)
            uut.load_ack(_bytes(op["seed"], op["n"]), op["pipe"])  # its return value is not part of C10
        elif o == "peer_load_ack":
            set_mode("tx")
            peer.load_ack(_bytes(op["seed"], op["n"]), 1)
        elif o == "update":
            if uut.update() is not True:
                res.add("accessors", {"kind": "update_return"}, "update() did not return True")
        elif o == "available":
            got = uut.available()
            if got != bool(ru.rx_fifo):
                res.add("accessors", {"kind": "available"}, "available() = %r with %d payloads in the RX FIFO" % (got, len(ru.rx_fifo)))
        elif o == "pipe":
            uut.update()
            want = head()[0] if head() else None
            if uut.pipe != want:
                res.add("accessors", {"kind": "pipe"}, "pipe = %r after update(), head payload is on pipe %r" % (uut.pipe, want))
        elif o == "get_pl":
            # a read-only query of one pipe's static length (its answer is C03's business; here: it must not change what the
            # accessors say about the FIFO)
            uut.get_payload_length(op["pipe"])
            got = uut.any()
            if got != exp_len():
                res.add("accessors", {"kind": "any_after_get_payload_length", "dyn": dyn}, "get_payload_length(%d), then any() = %r; next payload: pipe %r length %r"
                        % (op["pipe"], got, head()[0] if head() else None, exp_len()))
        elif o == "any":
            got = uut.any()
            if got != exp_len():
                res.add("accessors", {"kind": "any", "dyn": dyn}, "any() = %r, next payload: pipe %r length %r" % (got, head()[0] if head() else None, exp_len()))
        elif o == "read":
            h = head()
            n = exp_len()
            flags0, rx0, tx0 = ru.flags, list(ru.rx_fifo), list(ru.tx_fifo)
            got = uut.read()
            if h is None:
                if got is not None:
                    res.add("read", {"kind": "read_from_empty"}, "read() returned %r from an empty RX FIFO" % (got,))
            else:
                want = (h[1] + bytes(32))[:n]
                if got is None or bytes(got) != want:
                    res.add("read", {"kind": "wrong_payload", "dyn": dyn}, "read() returned %r, head payload is %s (pipe %d)" % (got, hx(want), h[0]))
                if ru.rx_fifo != rx0[1:]:
                    res.add("read", {"kind": "fifo_not_popped_exactly"}, "RX FIFO went from %d to %d payloads" % (len(rx0), len(ru.rx_fifo)))
                if ru.flags != flags0 & ~0x40:
                    res.add("read", {"kind": "flags", "before": flags0, "after": ru.flags}, "flags 0x%02X -> 0x%02X after read()" % (flags0, ru.flags))
                # read()'s last transaction samples the STATUS byte after the payload has left the FIFO: `pipe` names the next payload
                want_p = head()[0] if head() else None
                if uut.pipe != want_p:
                    res.add("accessors", {"kind": "pipe_after_read"}, "pipe = %r right after read(); the next payload is on pipe %r (the payload just removed was on pipe %d)" % (uut.pipe, want_p, h[0]))
            if ru.tx_fifo != tx0:
                res.add("read", {"kind": "tx_fifo_touched"}, "read() changed the TX FIFO")
        elif o == "fifo":
            got = uut.fifo(op["about_tx"], op["check_empty"])
            q = ru.tx_fifo if op["about_tx"] else ru.rx_fifo
            empty, full = len(q) == 0, len(q) >= 3
            if op["check_empty"] is None:
                want = 1 if empty else (2 if full else 0)
            else:
                want = empty if op["check_empty"] else full
            if got != want or isinstance(got, bool) != isinstance(want, bool):
                res.add("accessors", {"kind": "fifo", "about_tx": op["about_tx"], "check_empty": op["check_empty"]},
                        "fifo(%r, %r) = %r with %d payloads queued (expected %r)" % (op["about_tx"], op["check_empty"], got, len(q), want))
        elif o == "tx_full":
            uut.update()
            if uut.tx_full != (len(ru.tx_fifo) >= 3):
                res.add("accessors", {"kind": "tx_full"}, "tx_full = %r with %d payloads in the TX FIFO" % (uut.tx_full, len(ru.tx_fifo)))
        elif o == "irq":
            uut.update()
            got = (uut.irq_dr, uut.irq_ds, uut.irq_df)
            want = (bool(ru.flags & 0x40), bool(ru.flags & 0x20), bool(ru.flags & 0x10))
            if got != want:
                res.add("accessors", {"kind": "irq_flags"}, "(irq_dr, irq_ds, irq_df) = %r, radio flags 0x%02X" % (got, ru.flags))
        elif o == "clear":
            a, b, c = op["args"]
            flags0, rx0, tx0 = ru.flags, list(ru.rx_fifo), list(ru.tx_fifo)
            # MAX_RT cleared with CE high would restart the transmission in the model: isolate the clause
            if mode == "tx":
                uut.ce_pin = False
            uut.clear_status_flags(a, b, c)
            want = flags0 & ~((a << 6) | (b << 5) | (c << 4))
            if ru.flags != want:
                res.add("clear", {"kind": "flags", "args": [a, b, c]}, "clear_status_flags%r: flags 0x%02X -> 0x%02X, expected 0x%02X" % ((a, b, c), flags0, ru.flags, want))
            if ru.rx_fifo != rx0 or ru.tx_fifo != tx0:
                res.add("clear", {"kind": "fifo_touched"}, "clear_status_flags changed a FIFO")
        elif o in ("flush_rx", "flush_tx"):
            flags0, rx0, tx0 = ru.flags, list(ru.rx_fifo), list(ru.tx_fifo)
            getattr(uut, o)()
            if o == "flush_rx":
                ok = not ru.rx_fifo and ru.tx_fifo == tx0
            else:
                ok = not ru.tx_fifo and ru.rx_fifo == rx0
            if not ok or ru.flags != flags0:
                res.add("flush", {"kind": o}, "%s: RX %d->%d, TX %d->%d, flags 0x%02X->0x%02X" % (o, len(rx0), len(ru.rx_fifo), len(tx0), len(ru.tx_fifo), flags0, ru.flags))
        elif o == "last_tx_arc" and lite:
            pass   # not part of the lite API
        elif o == "last_tx_arc":
            got = uut.last_tx_arc
            if got != ru.arc_cnt:
                res.add("arc", {"kind": "last_tx_arc"}, "last_tx_arc = %r, the radio's last cycle made %d retransmissions" % (got, ru.arc_cnt))
        elif o == "interrupt_config":
            a, b, c = op["args"]
            uut.interrupt_config(a, b, c)
            enabled = (a << 6) | (b << 5) | (c << 4)
        elif o == "power_cycle":
            # the application puts the radio to sleep and wakes it up again (FIFOs, flags and the IRQ mask are retained by the chip)
            flags0, rx0, tx0 = ru.flags, list(ru.rx_fifo), list(ru.tx_fifo)
            if mode == "tx":
                uut.ce_pin = False
            uut.power = False
            sim.advance(300_000)
            uut.power = True
            sim.advance(5_000_000)
            if mode == "rx":
                uut.listen = True
            if (ru.flags, ru.rx_fifo, ru.tx_fifo) != (flags0, rx0, tx0):
                res.add("flush", {"kind": "power_cycle"}, "a power cycle changed flags/FIFOs: flags 0x%02X->0x%02X, RX %d->%d, TX %d->%d"
                        % (flags0, ru.flags, len(rx0), len(ru.rx_fifo), len(tx0), len(ru.tx_fifo)))
        elif o == "mode_cycle":
            # leave and re-enter the current mode (both setters rewrite CONFIG from the driver's shadow)
            if mode == "rx":
                uut.listen = False
                uut.listen = True
            elif not lite:
                uut.ce_pin = False
                uut.listen = True
                uut.listen = False
                uut.open_tx_pipe(peer_addr)
        settle()
        irq_check(o)
        if res.violations:
            break
    res.nontrivial = traffic > 0
    res.sample = {"dyn": dyn, "pl": scn["pl"], "pipes": scn["pipes"], "ackpl": scn["ackpl"], "lite": lite,
                  "ops": [o["op"] for o in scn["ops"]][:14]}
