#!/venv/bin/python
"""Entry point of the verification machinery.

  vcheck.py <Cnn> [--tier quick|thorough] [--jobs N] [--only i,j,...]
  vcheck.py --replay <file>
  vcheck.py --selftest setup|determinism|model [Cnn ...]

Exit 0: property held on everything explored (KNOWN-FINDING lines possible);
exit 1: new violation, `VIOLATION property=<id> replay=<path>` printed;
exit 2: harness error / watchdog / non-reproducing replay (never a verdict).
--replay: 1 reproduced, 3 reproduced with a different event log, 4 same clause violated with another signature, 0 not reproduced.
"""
import os
import sys

if os.environ.get("PYTHONHASHSEED") != "0" or os.environ.get("PYTHONDONTWRITEBYTECODE") != "1":
    os.environ["PYTHONHASHSEED"] = "0"
    os.environ["PYTHONDONTWRITEBYTECODE"] = "1"
    os.execv(sys.executable, [sys.executable] + sys.argv)

HERE = os.path.dirname(os.path.abspath(__file__))
sys.path.insert(0, HERE)
sys.path.insert(0, os.environ.get("VERIF_REPO_ROOT", "/repo"))  # /repo unless the tooling points at a scratch copy (tools/try_mutant.sh)
sys.dont_write_bytecode = True


def main(argv):
    import argparse
    ap = argparse.ArgumentParser()
    ap.add_argument("prop", nargs="*")
    ap.add_argument("--tier", default=os.environ.get("VERIF_TIER", "quick"), choices=["quick", "thorough"])
    ap.add_argument("--jobs", type=int, default=0)
    ap.add_argument("--only", default=None)
    ap.add_argument("--replay", default=None)
    ap.add_argument("--selftest", default=None)
    a = ap.parse_args(argv)
    try:
        seed = int(os.environ.get("VERIF_SEED", "0") or 0)
    except ValueError:
        seed = 0
    from nrfsim import harness
    if a.replay:
        ok, info = harness.replay_file(a.replay)
        if ok is None:
            print("HARNESS-ERROR\n" + info["harness_error"])
            return 2
        if not ok and info.get("clause_hit"):
            print("replay: the same clause is violated, with another signature: %s" % info["clause_hit"]["sig"])
            return 4
        if ok and not info["digest_match"]:
            print("replay: same violation but a DIFFERENT event log than recorded (digest mismatch) - not an exact reproduction")
            return 3
        return 1 if ok else 0
    if a.selftest:
        from nrfsim import selftest
        return selftest.main(a.selftest, a.prop, seed)
    if len(a.prop) != 1:
        ap.error("exactly one property id expected")
    only = [int(x) for x in a.only.split(",")] if a.only else None
    return harness.run_check(a.prop[0].upper(), a.tier, seed, jobs=a.jobs or None, only=only)


if __name__ == "__main__":
    sys.exit(main(sys.argv[1:]))
