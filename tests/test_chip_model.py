"""Model conformance vectors: pin the modelling decisions M1..M12 (DESIGN.md section 3).

Plain asserts, run by `vcheck.py --selftest model` and by setup_cmd.  These drive the chip
model directly over its SPI interface (no library code involved).
"""
from nrfsim.core import Sim, US, MS
from nrfsim.air import Air, FaultPlan
from nrfsim.chip import Radio, RESET


def _pair(plan=None):
    sim = Sim(7)
    air = Air(sim, FaultPlan(plan))
    return sim, air, Radio(sim, air, "A"), Radio(sim, air, "B")


def _w(r, reg, *vals):
    return r.xfer(bytes([0x20 | reg]) + bytes(vals))


def _r(r, reg, n=1):
    return r.xfer(bytes([reg]) + bytes(n))[1:]


def _setup_link(a, b, addr=b"\x01\x02\x03\x04\x05", arc=3, ard=1, dyn=True):
    for x in (a, b):
        _w(x, 0x1D, 0x05 if dyn else 0x01)
        _w(x, 0x1C, 0x3F if dyn else 0)
        _w(x, 0x04, (ard << 4) | arc)
        for p in range(6):
            _w(x, 0x11 + p, 8)
    _w(b, 0x0B, *addr)
    _w(b, 0x02, 0x02)
    _w(b, 0x00, 0x0F)
    b.set_ce(True)
    _w(a, 0x0A, *addr)
    _w(a, 0x10, *addr)
    _w(a, 0x02, 0x01)
    _w(a, 0x00, 0x0E)


def _run(sim, d):
    sim.advance(d)


def t_reset_values():
    sim, air, a, b = _pair()
    for reg, val in RESET.items():
        assert _r(a, reg)[0] == val, hex(reg)
    assert _r(a, 0x0A, 5) == b"\xe7" * 5 and _r(a, 0x0B, 5) == b"\xc2" * 5 and _r(a, 0x10, 5) == b"\xe7" * 5
    assert _r(a, 0x17)[0] == 0x11 and a.xfer(b"\xff")[0] == 0x0E
    return 4


def t_m1_status_before_command():
    sim, air, a, b = _pair()
    a.flags = 0x70
    st = _w(a, 0x07, 0x70)[0]
    assert st & 0x70 == 0x70, "STATUS clocked out during a clearing write still shows the flags"
    assert a.xfer(b"\xff")[0] & 0x70 == 0
    return 2


def t_m4_pid_and_duplicate():
    # ACK of the first attempt is lost: retransmission keeps its PID, PRX stores once, ACKs twice
    sim, air, a, b = _pair([{"src": "B", "ack": True, "nth": 0}])
    _setup_link(a, b)
    _run(sim, 200 * US)
    a.xfer(b"\xa0hello")
    a.set_ce(True)
    _run(sim, 5 * MS)
    assert a.flags & 0x20 and not a.flags & 0x10
    assert len(b.rx_fifo) == 1 and b.rx_fifo[0] == (1, b"hello")
    assert b.stats["dup"] == 1 and b.stats["ack_tx"] == 2 and a.stats["tx"] == 2
    assert _r(a, 0x08)[0] & 0x0F == 1
    pids = [t["pid"] for t in air.trace if not t["ack"]]
    assert pids[0] == pids[1]
    a.xfer(b"\xa0hello")
    _run(sim, 5 * MS)
    assert [t["pid"] for t in air.trace if not t["ack"]][-1] != pids[0]
    assert len(b.rx_fifo) == 2, "same bytes with a new PID are a new payload"
    return 6


def t_m4_no_filter_without_auto_ack():
    # a pipe without auto-ack stores byte-identical packets with the same PID (e.g. from two identical transmitters)
    sim, air, a, b = _pair()
    c = Radio(sim, air, "C")
    _setup_link(a, b, arc=0)
    _setup_link(c, b, arc=0)
    _w(b, 0x01, 0x3D)          # EN_AA off on pipe 1 (the receiving pipe)
    _run(sim, 200 * US)
    a.xfer(b"\xb0same")
    a.set_ce(True)
    _run(sim, 2 * MS)
    c.xfer(b"\xb0same")
    c.set_ce(True)
    _run(sim, 2 * MS)
    assert a.pid == c.pid and len(b.rx_fifo) == 2 and b.stats["dup"] == 0
    # with auto-ack on that pipe the second one is taken for a re-transmission
    sim, air, a, b = _pair()
    c = Radio(sim, air, "C")
    _setup_link(a, b, arc=0)
    _setup_link(c, b, arc=0)
    _run(sim, 200 * US)
    a.xfer(b"\xb0same")
    a.set_ce(True)
    _run(sim, 2 * MS)
    c.xfer(b"\xb0same")
    c.set_ce(True)
    _run(sim, 2 * MS)
    assert len(b.rx_fifo) == 1 and b.stats["dup"] == 1
    return 2


def t_m2_ack_needs_pipe0():
    sim, air, a, b = _pair()
    _setup_link(a, b)
    _w(a, 0x0A, 9, 9, 9, 9, 9)  # pipe 0 no longer on the TX address
    _run(sim, 200 * US)
    a.xfer(b"\xa0x")
    a.set_ce(True)
    _run(sim, 10 * MS)
    assert a.flags & 0x10 and not a.flags & 0x20 and len(b.rx_fifo) == 1
    assert a.stats["tx"] == 4  # 1 + ARC(3)
    # MAX_RT keeps the payload and blocks until cleared
    assert len(a.tx_fifo) == 1
    return 3


def t_m3_noack():
    sim, air, a, b = _pair()
    _setup_link(a, b)
    _run(sim, 200 * US)
    a.xfer(b"\xb0noack")
    a.set_ce(True)
    _run(sim, 3 * MS)
    assert a.flags & 0x20 and b.stats["ack_tx"] == 0 and len(b.rx_fifo) == 1 and a.stats["tx"] == 1
    # EN_AA off on the PTX pipe 0: no wait either
    _w(a, 0x01, 0x3E)
    a.xfer(b"\xa0plain")
    _run(sim, 3 * MS)
    assert a.stats["tx"] == 2 and b.stats["ack_tx"] == 1 and len(b.rx_fifo) == 2, "PRX with auto-ack on the pipe answers although the PTX does not wait"
    # ... and stays silent once auto-ack is off on the receiving pipe (how the network layer multicasts)
    _w(b, 0x01, 0x3D)
    a.xfer(b"\xa0again")
    _run(sim, 3 * MS)
    assert a.stats["tx"] == 3 and b.stats["ack_tx"] == 1 and len(b.rx_fifo) == 3
    return 5


def t_m6_ack_payload():
    sim, air, a, b = _pair()
    _setup_link(a, b, ard=3)
    for x in (a, b):
        _w(x, 0x1D, 0x07)
    b.xfer(b"\xa9ACK1")
    _run(sim, 200 * US)
    a.xfer(b"\xa0ping")
    a.set_ce(True)
    _run(sim, 5 * MS)
    assert a.flags & 0x60 == 0x60 and a.rx_fifo == [(0, b"ACK1")]
    assert len(b.tx_fifo) == 1, "ACK payload stays until a new packet arrives on the pipe"
    a.xfer(b"\xa0pong")
    _run(sim, 5 * MS)
    assert len(b.tx_fifo) == 0 and b.flags & 0x20
    return 3


def t_m11_stale_ack_payload_sent_by_ptx():
    # a payload armed with W_ACK_PAYLOAD while the chip was a PRX and never used is the head of the TX FIFO when the chip becomes a
    # PTX: it goes out as an ordinary payload, ahead of what is uploaded afterwards
    sim, air, a, b = _pair()
    _setup_link(a, b, ard=3)
    for x in (a, b):
        _w(x, 0x1D, 0x07)
    # A was listening (PRX) and armed an ACK payload for pipe 1 that nobody fetched
    a.set_ce(False)
    _w(a, 0x00, 0x0F)
    a.xfer(b"\xa9STALE")
    _w(a, 0x00, 0x0E)       # ... then turned transmitter without flushing
    a.xfer(b"\xa0fresh")
    a.set_ce(True)
    _run(sim, 10 * MS)
    assert [d for (_, d) in b.rx_fifo] == [b"STALE", b"fresh"], b.rx_fifo
    assert len(a.tx_fifo) == 0
    return 2


def t_m12_ack_finished_before_own_packet():
    # B stores a packet at 250 kbps and is turned into a transmitter by its MCU while its auto-ACK (about 300 us on the air) is
    # still being sent: B's own packet starts only after that ACK has ended - the two never overlap, A gets its TX_DS
    sim, air, a, b = _pair()
    _setup_link(a, b, ard=5)
    for x in (a, b):
        _w(x, 0x06, 0x27)       # 250 kbps
    _w(b, 0x0A, 9, 9, 9, 9, 9)
    _w(b, 0x10, 9, 9, 9, 9, 9)
    a.xfer(b"\xa0ping")
    a.set_ce(True)
    for _ in range(400):
        _run(sim, 10 * US)
        if b.acking:
            break
    assert b.acking and b.rx_fifo, "B is sending its auto-ACK"
    b.set_ce(False)
    _w(b, 0x00, 0x0E)
    b.xfer(b"\xa0own")
    b.set_ce(True)
    _run(sim, 20 * MS)
    acks = [t for t in air.trace if t["src"] == "B" and t["ack"]]
    own = [t for t in air.trace if t["src"] == "B" and not t["ack"]]
    assert acks and own and own[0]["t0"] >= acks[0]["t1"], (acks[:1], own[:1])
    assert a.flags & 0x20, "the ACK reached A intact"
    return 2


def t_m7_ard_rules():
    # 250 kbps with ARD = 250 us can never see its ACK; ARD = 500 us can
    for ard, ok in ((0, False), (1, True)):
        sim, air, a, b = _pair()
        _setup_link(a, b, arc=1, ard=ard)
        for x in (a, b):
            _w(x, 0x06, 0x27)
        _run(sim, 200 * US)
        a.xfer(b"\xa0z")
        a.set_ce(True)
        _run(sim, 20 * MS)
        assert bool(a.flags & 0x20) == ok, (ard, hex(a.flags))
    # 1 Mbps, ARD = 250 us: a 5-byte ACK payload fits, a 6-byte one does not
    for n, ok in ((5, True), (6, False)):
        sim, air, a, b = _pair()
        _setup_link(a, b, arc=0, ard=0)
        for x in (a, b):
            _w(x, 0x1D, 0x07)
            _w(x, 0x06, 0x07)
        b.xfer(b"\xa9" + b"p" * n)
        _run(sim, 200 * US)
        a.xfer(b"\xa0z")
        a.set_ce(True)
        _run(sim, 20 * MS)
        assert bool(a.flags & 0x20) == ok, (n, hex(a.flags))
    return 4


def t_m8_compat():
    for tweak, ok in ((None, True), ("ch", False), ("rate", False), ("aw", False), ("crc", False), ("static", False)):
        sim, air, a, b = _pair()
        _setup_link(a, b, arc=0)
        if tweak == "ch":
            _w(b, 0x05, 3)
        elif tweak == "rate":
            _w(b, 0x06, 0x07)
        elif tweak == "aw":
            _w(b, 0x03, 2)
        elif tweak == "crc":
            _w(b, 0x00, 0x0B)
        elif tweak == "static":
            _w(b, 0x1C, 0)
        _run(sim, 300 * US)
        a.xfer(b"\xa0q")
        a.set_ce(True)
        _run(sim, 5 * MS)
        assert (len(b.rx_fifo) == 1) == ok, tweak
    return 6


def t_fifo_full_not_acked():
    sim, air, a, b = _pair()
    _setup_link(a, b, arc=0)
    _run(sim, 200 * US)
    a.set_ce(True)
    for i in range(4):
        a.xfer(b"\xa0" + bytes([65 + i]))
        _run(sim, 3 * MS)
        if i < 3:
            assert a.flags & 0x20
            _w(a, 0x07, 0x70)
    assert len(b.rx_fifo) == 3 and a.flags & 0x10 and b.stats["rxfull"] == 1
    assert b.xfer(b"\xff")[0] >> 1 & 7 == 1 and _r(b, 0x17)[0] & 2
    return 3


def t_nonplus_activate():
    sim = Sim(1)
    air = Air(sim)
    n = Radio(sim, air, "N", plus=False)
    _w(n, 0x1D, 5)
    assert _r(n, 0x1D)[0] == 0
    n.xfer(b"\x50\x73")
    _w(n, 0x1D, 5)
    assert _r(n, 0x1D)[0] == 5
    n.xfer(b"\x50\x73")
    assert _r(n, 0x1D)[0] == 0
    return 3


def t_collision_and_rx_session():
    sim, air, a, b = _pair()
    c = Radio(sim, air, "C")
    _setup_link(a, b, arc=0)
    _setup_link(c, b, arc=0)
    _run(sim, 200 * US)
    a.xfer(b"\xa0one")
    c.xfer(b"\xa0two")
    a.set_ce(True)
    c.set_ce(True)
    _run(sim, 5 * MS)
    assert len(b.rx_fifo) == 0 and air.collisions >= 2
    # a packet that starts before the receiver has settled is not received
    sim, air, a, b = _pair()
    _setup_link(a, b, arc=0)
    b.set_ce(False)
    _run(sim, 200 * US)
    a.xfer(b"\xa0x")
    a.set_ce(True)
    _run(sim, 135 * US)
    b.set_ce(True)  # settles 130 us later, i.e. after the packet started
    _run(sim, 5 * MS)
    assert len(b.rx_fifo) == 0
    return 3


def t_lint():
    sim, air, a, b = _pair()
    _w(a, 0x11, 40)
    _w(a, 0x06, 0x28)
    _w(a, 0x03, 0)
    _w(a, 0x00, 0x8E)
    assert len(a.lint) == 4
    return 4


def run_all():
    n = 0
    for name, fn in sorted(globals().items()):
        if name.startswith("t_") and callable(fn):
            n += fn()
    return n
