#!/bin/bash
# regen_fixed_replay.sh <finding id> [tier] [seed]: a fixed entry's replay has gone blind (later fixes shifted the timing): revert that one
# fix in a scratch worktree of /repo HEAD, run the property's check there, take the first new replay whose clause/kind match the entry
# and register it in place of the old one (commit and description are kept).
ID=$1; TIER=${2:-quick}; SEED=${3:-0}
cd /verif
eval $(/venv/bin/python - $ID <<'PY'
import json,sys,shlex
k=json.load(open('/verif/known_findings.json'))
e=[x for x in k['findings'] if x['id']==sys.argv[1]][0]
print("PROP=%s COMMIT=%s CLAUSE=%s KIND=%s" % (e['property'], e['commit'], e['clause'], shlex.quote(str(e['match'].get('kind')))))
PY
)
W=/tmp/regen_$ID
git -C /repo worktree add -q --detach $W HEAD || exit 9
trap "git -C /repo worktree remove --force $W" EXIT
git -C $W revert --no-commit $COMMIT >/dev/null 2>&1 || { echo "revert conflicts"; exit 9; }
/venv/bin/python - $ID > /tmp/kf_without_$ID.json <<'PY'
import json,sys
k=json.load(open('/verif/known_findings.json'))
k['findings']=[x for x in k['findings'] if x['id']!=sys.argv[1]]
print(json.dumps(k))
PY
MARK=$(mktemp)
VERIF_SEED=$SEED VERIF_KNOWN_FILE=/tmp/kf_without_$ID.json VERIF_REPO_ROOT=$W timeout 3000 /venv/bin/python vcheck.py $PROP --tier $TIER 2>&1 | grep -E "^violation|VIOLATION|^C[0-9]+:" | cut -c1-200
for F in $(find replays -newer $MARK -name "$PROP-$CLAUSE-*.json"); do
  if /venv/bin/python -c "
import json,sys
d=json.load(open('$F')); sys.exit(0 if d['expect']['clause']=='$CLAUSE' and str(d['expect']['sig'].get('kind'))=='$KIND' else 1)"; then
    VERIF_REPO_ROOT=$W /venv/bin/python vcheck.py --replay $F >/dev/null; A=$?
    /venv/bin/python vcheck.py --replay $F >/dev/null; B=$?
    echo "$F: reverted tree rc=$A, current tree rc=$B"
    if [ $A -eq 1 ] && [ $B -eq 0 ]; then
      WHAT=$(/venv/bin/python -c "
import json; k=json.load(open('/verif/known_findings.json')); e=[x for x in k['findings'] if x['id']=='$ID'][0]; print(e['what'].split(' ',3)[3])")
      /venv/bin/python tools/kf_add.py $ID fixed $COMMIT $F "$WHAT"; rm -f $MARK /tmp/kf_without_$ID.json; exit 0
    fi
  fi
done
rm -f $MARK /tmp/kf_without_$ID.json
echo "no suitable replay found"; exit 1
