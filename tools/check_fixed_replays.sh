#!/bin/bash
# For every "fixed" entry of known_findings.json: revert its fix commit in a scratch worktree of /repo HEAD and
# replay the committed replay file against it - it must reproduce (exit 1), i.e. the regression guard works.
cd /verif
/venv/bin/python - <<'PY'
import json, subprocess, os
k = json.load(open("/verif/known_findings.json"))
for e in k["findings"]:
    if e["status"] != "fixed":
        continue
    w = "/tmp/rev_%s" % e["id"]
    subprocess.run(["git", "-C", "/repo", "worktree", "add", "-q", "--detach", w, "HEAD"], check=True)
    try:
        r = subprocess.run(["git", "-C", w, "revert", "--no-commit", e["commit"]], capture_output=True, text=True)
        if r.returncode != 0:
            print("%-6s %s revert conflicts (fix entangled with later fixes): skipped" % (e["id"], e["commit"]))
            continue
        env = dict(os.environ, VERIF_REPO_ROOT=w)
        p = subprocess.run(["/venv/bin/python", "/verif/vcheck.py", "--replay", os.path.join("/verif", e["replay"])], capture_output=True, text=True, env=env, timeout=900)
        print("%-6s %s replay on reverted tree: %s" % (e["id"], e["commit"], "REPRODUCED" if p.returncode == 1 else "not reproduced (rc=%d) %s" % (p.returncode, p.stdout.strip()[:150])))
    finally:
        subprocess.run(["git", "-C", "/repo", "worktree", "remove", "--force", w])
PY
