#!/bin/bash
# sib.sh <mutant dir> <Cnn> [tier] : run one check against a scratch worktree with the mutant applied (no demo / suite run)
D=$1; P=$2; TIER=${3:-quick}
W=/tmp/sib_$$
git -C /repo worktree add -q --detach $W HEAD || exit 9
trap "git -C /repo worktree remove --force $W" EXIT
git -C $W apply $D/patch.diff || { echo "patch does not apply"; exit 9; }
cd /verif && VERIF_REPO_ROOT=$W timeout 3000 /venv/bin/python vcheck.py $P --tier $TIER 2>&1 | grep -E "^violation|^  |VIOLATION|KNOWN|HARNESS|^C[0-9]+:" | cut -c1-300 | head -8
echo "$(basename $(dirname $D))/$(basename $D) vs $P rc=${PIPESTATUS[0]}"
