#!/venv/bin/python
"""kf_add.py <id> <status known|fixed> <commit or -> <replay file> <what...>  : register a finding."""
import json, os, shutil, sys
HERE = os.path.dirname(os.path.dirname(os.path.abspath(__file__)))
fid, status, commit, replay = sys.argv[1:5]
what = " ".join(sys.argv[5:])
doc = json.load(open(replay))
dst = os.path.join("known", "%s-%s.json" % (fid, doc["property"]))
shutil.copy(replay, os.path.join(HERE, dst))
kf = json.load(open(os.path.join(HERE, "known_findings.json")))
kf["findings"] = [e for e in kf["findings"] if e["id"] != fid]
e = {"id": fid, "property": doc["property"], "status": status, "clause": doc["expect"]["clause"],
     "match": {"kind": doc["expect"]["sig"].get("kind")}, "replay": dst}
if status == "fixed":
    e["commit"] = commit
    e["what"] = "fixed: property=%s %s %s" % (doc["property"], commit, what)
else:
    e["what"] = what
kf["findings"].append(e)
json.dump(kf, open(os.path.join(HERE, "known_findings.json"), "w"), indent=1)
print("registered", fid, "->", dst)
