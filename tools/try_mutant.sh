#!/bin/bash
# try_mutant.sh <mutant dir with patch.diff, demo.py> <Cnn> [tier]
# Confirms a seeded change in a scratch worktree of /repo HEAD (so that /repo itself and any soak using it stay undisturbed):
# demo passes clean / fails patched, unedited test suite passes patched; then runs the check against that scratch tree
# (VERIF_REPO_ROOT) - equivalent to `git -C /repo apply`, run, `git -C /repo checkout -- .`.
set -u
D=$1; P=$2; TIER=${3:-quick}
W=/tmp/eval_$$
git -C /repo worktree add -q --detach $W HEAD || exit 9
trap "git -C /repo worktree remove --force $W; rm -f /tmp/demo_clean_$$.log /tmp/demo_patched_$$.log" EXIT
echo "== demo on clean tree"; timeout 300 /venv/bin/python $D/demo.py $W >/tmp/demo_clean_$$.log 2>&1; echo "rc=$?"
git -C $W apply $D/patch.diff || { echo "patch does not apply"; exit 9; }
echo "== test suite with patch"; (cd $W && /venv/bin/python -m pytest -q -p no:cacheprovider 2>&1 | tail -1)
echo "== demo with patch"; timeout 300 /venv/bin/python $D/demo.py $W >/tmp/demo_patched_$$.log 2>&1; echo "rc=$?"; tail -2 /tmp/demo_patched_$$.log
echo "== check $P ($TIER)"
cd /verif && VERIF_REPO_ROOT=$W timeout 3000 /venv/bin/python vcheck.py $P --tier $TIER 2>&1 | grep -E "^violation|^  |VIOLATION|KNOWN|HARNESS|^C[0-9]+:" | cut -c1-400 | head -12
echo "check rc=${PIPESTATUS[0]}"
