#!/bin/bash
# try_mutant.sh <mutant dir with patch.diff, demo.py> <Cnn> [tier]
# Confirms the seeded change (demo passes clean / fails patched, test suite passes patched) and runs the check.
set -u
D=$1; P=$2; TIER=${3:-quick}
cd /repo || exit 9
if [ -n "$(git status --porcelain)" ]; then echo "repo not clean"; exit 9; fi
echo "== demo on clean tree"; timeout 300 /venv/bin/python $D/demo.py /repo >/tmp/demo_clean.log 2>&1; echo "rc=$?"
git apply $D/patch.diff || { echo "patch does not apply"; exit 9; }
echo "== test suite with patch"; /venv/bin/python -m pytest -q -p no:cacheprovider 2>&1 | tail -1
echo "== demo with patch"; timeout 300 /venv/bin/python $D/demo.py /repo >/tmp/demo_patched.log 2>&1; echo "rc=$?"; tail -2 /tmp/demo_patched.log
echo "== check $P ($TIER)"
cd /verif && timeout 3000 /venv/bin/python vcheck.py $P --tier $TIER 2>&1 | grep -E "^violation|^  |VIOLATION|KNOWN|HARNESS|^C[0-9]+:" | cut -c1-400 | head -12
echo "check rc=${PIPESTATUS[0]}"
git -C /repo checkout -- .
git -C /repo status --porcelain
