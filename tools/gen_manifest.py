#!/venv/bin/python
"""Regenerates /verif/MANIFEST.json from the table below (kept valid at all times)."""
import json
import os

HERE = os.path.dirname(os.path.dirname(os.path.abspath(__file__)))

# property -> (level category, technique, level text, level note, DESIGN.md section)
CHECKS = {
    "C01": ("exploration",
            "deterministic simulation: seeded search over configurations, payload histories, drain instants and ACK/packet-loss plans on a 2-radio simulated link",
            "Seeded deterministic-simulation search: the real RF24 drivers exchange payloads through a datasheet-derived chip model and a shared air with injected packet/ACK loss; oracles compare SPI uploads, the peer's read() stream and the caller's buffers with the statement. Sampling, not proof.",
            "Trusts the chip/air model (M1,M3,M4,M8); compatible pairs only; faults leave one attempt+ACK intact.",
            "5 C01"),
    "C02": ("fault_enumeration",
            "deterministic simulation with enumerated per-attempt fault vectors (packet lost / ACK lost / delivered) plus seeded send/resend histories, blackouts and peer states",
            "Every attempt of a payload gets a fate; all fate vectors are enumerated for small arc/force_retry and the first-success/all-fail families for every arc; seeded histories beyond. Return values, call duration and air packets are compared with the chip model's record of each transmit cycle.",
            "Trusts the chip/air model (M1,M2,M3,M4,M6,M7,M9); PTX enters TX mode via listen=False.",
            "5 C02"),
    "C03": ("exploration",
            "deterministic simulation of the radio's register file: small-scope sweep (all ordered pairs of configuration calls) plus seeded call histories against an independent reference encoder, on clean/dirty plus/non-plus chips",
            "Model-based exploration of configuration-call histories: every call's register footprint, getter value, exception and register lint is compared with a reference encoder written from the datasheet register map and the documentation; the cache clause re-enters the object's with-block and requires no register to change. No schedule or fault dimension exists in this property; the environment dimension is chip variant and dirty start state.",
            "Trusts the chip model's register map/masks and the documentation as the source of the reference; out-of-domain arguments where docs and code disagree accept both readings.",
            "5 C03"),
    "C08": ("exploration",
            "deterministic simulation: breadth-first small-scope sweep over pipe/role call sequences (depth 4/5) plus seeded longer ones, with probe packets from a simulated peer radio",
            "All call sequences over a 12-symbol alphabet up to depth 5 (quick) or 6 (thorough) and seeded ones to depth 12 are executed on the chip model; after every RX entry / TX-mode open_tx_pipe the chip's pipe-0 state is compared with a 3-variable reference model and confirmed functionally by probe packets and an acknowledged send() through the simulated air; CE-vs-CONFIG ordering is monitored in the chip model.",
            "Trusts chip/air model decision M2; short addresses compared over the written prefix only.",
            "5 C08"),
    "C09": ("exploration",
            "deterministic simulation of one shared chip/CE/bus: seeded interleavings of with-blocks of 2-3 driver objects of mixed classes on clean/dirty plus/non-plus chips",
            "Seeded interleavings of with-blocks; the chip model's complete configuration-register snapshot at the end of an object's block is compared with the snapshot right after the same object's next __enter__, and PWR_UP/CE are checked after every __exit__. The environment dimension is chip variant and dirty start state; there is no schedule or fault in this property.",
            "Trusts the chip model's register file (incl. the non-plus ACTIVATE gate).",
            "5 C09"),
    "C10": ("exploration",
            "deterministic simulation: seeded histories of accessor calls interleaved with traffic from a simulated peer (pipes, lengths, ACK payloads, failed transmissions, FIFO overflow)",
            "Seeded histories; after update() (or the accessor's own transaction) with the medium quiescent, every accessor is compared with the chip model's FIFOs, flags, OBSERVE_TX and IRQ line; read/clear/flush are checked for exact footprints.",
            "Trusts chip model decisions M1, M5, M6; exact-length reads only.",
            "5 C10"),
    "C04": ("exploration",
            "deterministic simulation with all 781 nodes on one simulated air: the (source, destination) pair space is enumerated and each frame is walked hop by hop through the real write()/update() of the nodes involved; pipe registers of all 781 chips compared exhaustively",
            "All 781 valid addresses are real RF24Network objects on chip models sharing one air; the thorough tier walks all 609 180 ordered pairs of the default configuration (exhaustive for that finite sub-space) plus seeded pairs for random prefix/suffix sets and multicast off; every transmission must be stored by exactly one radio - the reference next hop on the tree path - on a pipe >= 1, and the pipe registers of all chips are checked for collisions. There is no schedule or fault in this property; the simulator supplies the shared medium on which agreement between two nodes' independently computed addresses becomes observable.",
            "Loss-free medium, sequential stepping (one MCU at a time); chip model M8.",
            "5 C04"),
    "C05": ("exploration",
            "deterministic simulation of 2..10 network nodes as seeded-scheduled tasks (per-node MCU timing jitter, speed classes, clock skew, stalls) on a shared simulated air; history oracle at quiescence; separate lossy configuration",
            "Every node is a real RF24Network/RoutingOnly object on its own chip model and simulated MCU task; a seeded scheduler decides all interleavings; messages are sent one at a time and the application logs of all nodes are compared with the sent message at quiescence (delivered once, intact, nobody else, fragmented on air). 15 % of runs inject packet/ACK loss and enforce only the safety clauses. The former known finding (fragmented messages over routed paths, D4) is repaired; its replay is re-run as a regression guard.",
            "Trusts chip/air model (M1-M4, M7-M10) and the timing envelope in evidence.assumptions; sampling, not proof.",
            "5 C05"),
    "C06": ("fault_enumeration",
            "deterministic simulation with enumerated fragment delivery patterns (drop/duplicate/transpose/replay/interleave/stray x dequeue position) injected through a real node's radio and update(); seeded concurrent full-stack senders under loss",
            "Layer (a) enumerates delivery patterns of reference-built fragment frames put on the air by scripted injector radios and received through the real node's chip, update() and queue; layer (b) runs 2-3 real concurrent senders under seeded packet/ACK loss. Oracle: every dequeued frame is one complete sent message, at most once.",
            "Trusts the reference fragmenter (TMRh20 numbering) and chip model M4; claims nothing about which messages get through.",
            "5 C06"),
    "C07": ("exploration",
            "deterministic simulation: post-call invariant on every node's chip model after every public call, over seeded network/mesh API histories with absent/halted nodes, packet/ACK loss, NETWORK_ACK drops, blackouts, MCU jitter and stalls",
            "Every node of a run is a unit under test: a hook in the harness's node loop evaluates the listening invariant (PWR_UP, PRIM_RX, CE, RX session, EN_RXADDR, six reference pipe addresses, EN_AA=0x3E, DPL) on the chip model at the return of each public call, whatever it returned or raised; at the end injector frames confirm that the parent-facing pipe, a child pipe and the level address really receive.",
            "Trusts the TMRh20-derived reference address translation and the chip model's notion of an RX session.",
            "5 C07"),
    "C11": ("exploration",
            "deterministic simulation: every message length written by a real sender to a real receiver (tasks) with the sniffer comparing on-air frames to an independent reference fragmenter and a TMRh20-style reference reassembler; fragment-abort faults for type restoration; direct evaluation of header layout over complete value ranges",
            "On-air part: all lengths 0..144 over one hop (and single-frame messages over a routed hop), sniffed frames = reference fragmenter output, reference reassembler and the real receiver return the original; fault 'all attempts of fragment k lost' for every k checks that the caller's header type is restored on the abort path. The header layout sub-clause is a pure function evaluated directly over all types x reserved values, all frame ids and all from/to values (labelled direct_evaluation; the simulator adds nothing to it).",
            "Reference fragmenter/reassembler follow TMRh20 numbering; little-endian host.",
            "5 C11"),
    "C12": ("exploration",
            "small-scope enumeration of queue operation histories against a reference queue model (direct evaluation, no simulator involved) plus deterministic simulation of in-situ arrivals through a real node's radio and update() with duplicated frames, dequeue points, capacity changes and fragmentation toggles",
            "Part (b) enumerates all operation sequences up to length 6 (quick) / 7 (thorough) over a 9-symbol alphabet and seeded longer ones against a reference queue (a sequential model-based test: no schedule, clock or fault is involved - stated as such); part (a) feeds a real node's queue from an injector radio through the chip model and update(), where the network layer re-uses one frame buffer for every reception, and checks order, content, bound, duplicate rule and that frames handed out earlier are never touched by later receptions.",
            "Non-fragment message types in direct histories; peek() mutation not generated.",
            "5 C12"),
    "C13": ("fault_enumeration",
            "deterministic simulation of routes of 1..8 hops (all nodes as seeded-scheduled tasks) with every single-failure position enumerated: forward hop k fails, link ACKs of hop k lost, NETWORK_ACK relay j fails",
            "For each route length the single-failure positions are enumerated as explicit air fault rules (by transmitting node and network frame type); write()'s return value and duration at the origin are compared with the chip model's record of first-hop acceptance and with the sniffer's record of NETWORK_ACK frames stored by the origin's radio; NETWORK_ACK originations at the delivering router are counted per forwarded copy.",
            "Trusts chip/air model M1-M4, M7, M9; a NETWORK_ACK unread in the FIFO at the deadline counts as a legitimate timeout (margin in evidence).",
            "5 C13"),
    "C15": ("exploration",
            "deterministic simulation: a sweep of forged frames (types x lengths x destination/origin classes x roles/levels) and seeded frame sequences injected by a scripted radio into a lone real node whose neighbours are absent; direct evaluation of the address predicate over all 65536 values",
            "Forged, truncated and random frames are put on the simulated air by an injector chip and received through the real node's radio model and update(); the harness observes exceptions, virtual time per update() against a budget derived from tx_timeout and the retry set-up (neighbours absent, so forwarding runs into its time-outs), queue entries and transmissions. The validity predicate sub-clause is a pure function evaluated directly (labelled direct_evaluation in evidence).",
            "Documented validity predicate as the reference; forwarding budget formula in evidence.assumptions.",
            "5 C15"),
    "C16": ("exploration",
            "deterministic simulation: small-scope sweep and seeded histories of address requests (direct/relayed), releases, save/load (JSON and binary, in-memory file system) and restart-with-only-the-file, injected through the real master's radio; invariants after every event",
            "Request and release frames are forged by a scripted injector radio and handled by the real RF24Mesh master through its chip model and update(); the master's replies are inspected on the simulated air; file persistence runs on an in-memory file system bound to the module's open(), with 'MCU restart' as an event that keeps only the file. The oracle is a set of invariants (injectivity, lease validity, reply content/first hop, reuse, round trip), not a copy of the allocator.",
            "No crash consistency of the file is claimed (exact round trip only).",
            "5 C16"),
    "C17": ("exploration",
            "deterministic simulation: master + 1..12 joining mesh nodes as seeded-scheduled tasks (start offsets, MCU jitter, one speed class per run), API sequences per node, collisions arising from the schedule; separate lossy configuration",
            "Joiners and master are real objects running as simulated tasks; safety clauses (valid address recorded under the ID in the master's table version in force, lookup answers consistent with a table version in force during the call, no exception at the master, table unchanged by lookups) are checked for every call; liveness-flavoured clauses (send reaches, release frees, check_connection, -1 only without answer) are enforced for calls that ran without any concurrent traffic, because the network is best-effort under cross traffic; 20 % of runs inject loss and keep only no-exception/termination/valid-or-None.",
            "Timing envelope and speed-class restriction in evidence.assumptions; chip/air model M1-M4, M10.",
            "5 C17"),
    "C14": ("exploration",
            "deterministic simulation of populated topologies (5..16 nodes as seeded-scheduled tasks with MCU jitter): multicasts from every sender class to every level; application logs, chip ACK ground truth and sniffer compared at quiescence",
            "Seeded populated topologies with per-node allow_multicast / one relaying node; after each multicast the set of application logs that hold it is compared with the level membership, the chip model tells whether any transmission requested an ACK and the sniffer whether any ACK appeared, and the relaying node's re-broadcast is checked on the air.",
            "Trusts chip/air model M3, M10; timing envelope for fragmented multicasts and the two generator restrictions listed in evidence.assumptions.",
            "5 C14"),
    "C18": ("exploration",
            "deterministic simulation: seeded histories of FakeBLE configuration/hop/channel/with-block calls; every sniffed on-air payload decoded by an independent bit-serial BLE reference codec for the tuned channel",
            "Seeded call histories (plus the complete name-length x show_pa_level x PA x chunk-length grid in thorough); each advertisement is taken from the simulated air with the RF_CH of that transmission and de-whitened/CRC-checked/parsed by a spec-derived codec that shares no code with fake_ble.py; capacity arithmetic is recomputed independently. The history dimension (whitening seed vs. channel register) is what the simulator contributes; no fault is involved.",
            "Trusts the reference codec and the model's legacy-ShockBurst framing for EN_AA=0/ARC=0.",
            "5 C18"),
    "C19": ("fault_enumeration",
            "deterministic simulation with enumerated air faults: every single-bit flip of each base packet's 32-byte payload plus seeded multi-bit flips, CRC-valid adversarial PDUs from a reference encoder via a scripted injector radio, random payloads",
            "TX FakeBLE (or the reference encoder through an injector chip) -> simulated air with bit-flip fault rules -> RX FakeBLE; for each base packet all 256 single-bit corruptions are enumerated; the reference codec decides for the 32 bytes actually received whether an element must/may be queued and what it must contain.",
            "Trusts the reference codec; temperature tolerance of one 0.01 unit; length byte < 6 or RFU bits: either outcome accepted.",
            "5 C19"),
    "C20": ("exploration",
            "deterministic simulation: the C01/C02/C08/C10 scenario generators, fault enumerations and oracles re-run with the rf24_lite driver (through the real adafruit SPIDevice on a busio-style fake bus) as transmitter, receiver or both, plus a configuration reference encoder and the complete load_ack argument grid",
            "The lite driver is exercised by the same simulated links, per-attempt fault vectors, pipe/role sweeps and accessor histories as the full driver (within its documented reductions), interoperating with RF24 in both directions; a small inline reference encoder checks its configuration attributes; load_ack is evaluated for every length 0..34 x pipe -1..6 x TX FIFO fill 0..3.",
            "As C01, C02, C08, C10; the lite driver is only placed on nRF24L01+ chips (documented incompatibility with non-plus).",
            "5 C20"),
}

REASON_PENDING = "check not built yet in this commit (planned, see DESIGN.md section 5)"


def main():
    props = [json.loads(l) for l in open(os.path.join(HERE, "properties.jsonl"))]
    checks = []
    na = []
    for p in props:
        pid = p["id"]
        if pid in CHECKS and os.path.exists(os.path.join(HERE, "checks", pid.lower() + ".py")):
            cat, tech, text, note, ref = CHECKS[pid]
            checks.append({
                "property_id": pid,
                "quick_cmd": "/venv/bin/python /verif/vcheck.py %s --tier quick" % pid,
                "thorough_cmd": "/venv/bin/python /verif/vcheck.py %s --tier thorough" % pid,
                "evidence_file": "/verif/evidence/%s.json" % pid,
                "replay_cmd_template": "/venv/bin/python /verif/vcheck.py --replay {path}",
                "engine": "nrfsim",
                "level_claimed": {"category": cat, "text": text, "design_ref": "DESIGN.md section " + ref},
                "level_note": note,
                "technique": tech,
            })
        else:
            na.append({"property_id": pid, "reason": REASON_PENDING})
    m = {
        "version": 1,
        "setup_cmd": "/venv/bin/python /verif/vcheck.py --selftest setup",
        "hooks": {
            "guard": "NRF24_VERIF_HOOKS",
            "enable": "no hooks exist: every seam is a constructor argument or a module attribute (DESIGN.md section 1); the guard name is unused",
            "baseline_off_cmd": "cd /repo && /venv/bin/python -m pytest -ra -q -p no:cacheprovider --timeout=900 --continue-on-collection-errors",
            "source_commits": [],
            "add_only": True,
        },
        "engines": [{
            "name": "nrfsim", "path": "/verif/nrfsim",
            "serves_properties": [c["property_id"] for c in checks],
            "kind_free_text": "deterministic discrete-event simulator (virtual time, seeded scheduler, baton-passed tasks, nRF24L01 chip model, shared air with explicit fault plans) driving the unmodified library; own seeded generators, ddmin minimiser, JSON replay files",
        }],
        "checks": checks,
        "notes": "Known findings and fixed defects: /verif/known_findings.json (replays under /verif/known/). New violations write replays under /verif/replays/.",
        "not_applicable": na,
    }
    with open(os.path.join(HERE, "MANIFEST.json"), "w") as f:
        json.dump(m, f, indent=1)
    print("MANIFEST: %d checks, %d pending" % (len(checks), len(na)))


if __name__ == "__main__":
    main()
