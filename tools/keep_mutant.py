#!/venv/bin/python
"""keep_mutant.py <src dir> <seeded id> <detected: quick|thorough|missed> <note...> : store a confirmed seeded change."""
import json, os, shutil, sys
HERE = os.path.dirname(os.path.dirname(os.path.abspath(__file__)))
src, sid, detected = sys.argv[1:4]
note = " ".join(sys.argv[4:])
dst = os.path.join(HERE, "seeded", sid)
os.makedirs(dst, exist_ok=True)
for f in ("patch.diff", "demo.py"):
    shutil.copy(os.path.join(src, f), os.path.join(dst, f))
meta = json.load(open(os.path.join(src, "meta.json")))
meta["origin"] = "independent sub-agent given only the property text and a scratch worktree"
meta["confirmed"] = ("patch applies to /repo HEAD; unedited test suite passes with it (208 passed, 55 xfailed, 1 xpassed); "
                     "demo.py exits 0 on the clean tree and non-zero with the patch (tools/try_mutant.sh)")
meta["ran"] = "tools/try_mutant.sh <dir> %s" % meta["property"]
meta["detected_by_check"] = detected
meta["note"] = note
json.dump(meta, open(os.path.join(dst, "meta.json"), "w"), indent=1)
print("kept", dst)
