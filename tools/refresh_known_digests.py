#!/venv/bin/python
"""Re-run the replays of `known` findings on the current tree and refresh their recorded event-log digest
(needed after a change of the simulator/model changes event logs; the scenarios themselves are untouched)."""
import json, os, sys
sys.path.insert(0, "/verif"); sys.path.insert(0, os.environ.get("VERIF_REPO_ROOT", "/repo"))
from nrfsim import harness
k = json.load(open("/verif/known_findings.json"))
for e in k["findings"]:
    if e["status"] != "known":
        continue
    path = os.path.join("/verif", e["replay"])
    ok, info = harness.replay_file(path, verbose=False)
    doc = json.load(open(path))
    print(e["id"], "reproduces" if ok else "DOES NOT REPRODUCE", doc.get("digest"), "->", info.get("digest"))
    if ok:
        doc["digest"] = info["digest"]
        json.dump(doc, open(path, "w"), indent=1, sort_keys=True)
