#!/bin/bash
# eval_batch.sh <Cnn> [round dir prefix, default /tmp/out5_] : tools/try_mutant.sh for m1..m3 of one agent's output
P=$1; PRE=${2:-/tmp/out5_}
for k in 1 2 3; do
  D=$PRE$P/m$k
  [ -f $D/patch.diff ] || { echo "## $P m$k: no patch"; continue; }
  echo "## $P m$k: $(/venv/bin/python -c "import json;print(json.load(open('$D/meta.json'))['summary'][:300])")"
  /verif/tools/try_mutant.sh $D $P quick 2>&1
done
