#!/bin/bash
# recheck_seeded.sh [ids...] : for every stored seeded change, apply it in a scratch worktree of /repo HEAD and run the quick check of
# its property against that tree (VERIF_REPO_ROOT); prints one line per change: DETECTED (check exit 1) / MISSED (exit 0) / ERROR.
cd /verif
IDS=${@:-$(ls seeded)}
for ID in $IDS; do
  P=${ID%%-*}
  if grep -q '"obsolete_since"' /verif/seeded/$ID/meta.json; then echo "$ID OBSOLETE (see meta.json)"; continue; fi
  W=/tmp/recheck_$$_$ID
  git -C /repo worktree add -q --detach $W HEAD || { echo "$ID ERROR worktree"; continue; }
  if git -C $W apply /verif/seeded/$ID/patch.diff 2>/dev/null; then
    OUT=$(VERIF_REPO_ROOT=$W timeout 1200 /venv/bin/python vcheck.py $P --tier quick 2>&1); RC=$?
    case $RC in 1) R=DETECTED;; 0) R=MISSED;; *) R="ERROR rc=$RC";; esac
    echo "$ID $R $(echo "$OUT" | grep -m1 '^violation' | cut -c1-120)"
  else
    echo "$ID PATCH-DOES-NOT-APPLY"
  fi
  git -C /repo worktree remove --force $W
done
