#!/bin/bash
# soak.sh <tier> <seed> [<seed> ...] : run every registered check with the given VERIF_SEED values; print anything that is not clean
TIER=$1; shift
cd /verif
for S in "$@"; do
  for C in C01 C02 C03 C04 C05 C06 C07 C08 C09 C10 C11 C12 C13 C14 C15 C16 C17 C18 C19 C20; do
    OUT=$(VERIF_SEED=$S timeout 7200 /venv/bin/python /verif/vcheck.py $C --tier $TIER 2>&1); RC=$?
    echo "seed=$S $C rc=$RC $(echo "$OUT" | grep -E "^C[0-9]+:" | cut -c1-150)"
    if [ $RC -ne 0 ]; then echo "$OUT" | grep -E "^violation|^  |VIOLATION|HARNESS" | cut -c1-400 | head -12; fi
  done
done
