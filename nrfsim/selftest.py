"""Self-tests of the machinery: setup (imports), model conformance, determinism."""
import json
import os
import subprocess
import sys

from . import harness

ALL = ["C%02d" % i for i in range(1, 21)]


def _built():
    out = []
    for p in ALL:
        if os.path.exists(os.path.join(harness.VERIF, "checks", p.lower() + ".py")):
            out.append(p)
    return out


def setup():
    import hypothesis  # noqa: F401  (pre-installed in /venv; used by the sequential checks)
    import adafruit_bus_device.spi_device  # noqa: F401
    import circuitpython_nrf24l01.rf24  # noqa: F401
    for p in _built():
        harness.load_check(p)
    rc = model()
    print("setup ok: %d checks importable" % len(_built()))
    return rc


def model():
    from tests import test_chip_model
    n = test_chip_model.run_all()
    print("model conformance: %d vectors ok" % n)
    return 0


def _digests(prop, tier, seed, n):
    mod = harness.load_check(prop)
    out = []
    total = mod.count(tier)
    # half of the sample from the start of the index space (enumerations), half spread over the rest (seeded part)
    idx = sorted(set(list(range(min(n // 2, total))) + [int(k * (total - 1) / max(1, n // 2 - 1)) for k in range(n // 2)]))
    for i in idx:
        res = harness.run_one(mod, mod.make(i, seed, tier))
        out.append((res.digest, res.isig, sorted(json.dumps(v.to_json(), sort_keys=True) for v in res.violations),
                    res.harness_error is not None))
    return out


def determinism(props, seed, n=60):
    """Same seed => same event-log digest: twice in this process, once in a fresh interpreter
    with another PYTHONHASHSEED."""
    props = props or _built()
    bad = 0
    for p in props:
        a = _digests(p, "quick", seed, n)
        b = _digests(p, "quick", seed, n)
        code = ("import sys,json; sys.path.insert(0,%r); sys.path.insert(0,'/repo'); from nrfsim import selftest; "
                "print(json.dumps(selftest._digests(%r,'quick',%d,%d)))" % (harness.VERIF, p, seed, n))
        env = dict(os.environ, PYTHONHASHSEED="12345", PYTHONDONTWRITEBYTECODE="1")
        out = subprocess.run([sys.executable, "-c", code], capture_output=True, text=True, env=env, timeout=1800)
        try:
            c = [tuple(x) for x in json.loads(out.stdout.strip().splitlines()[-1])]
        except Exception:
            print("%s: fresh interpreter failed\n%s" % (p, out.stderr[-2000:]))
            bad += 1
            continue
        a2 = [(x[0], x[1], x[2], x[3]) for x in a]
        c2 = [(x[0], x[1], x[2], x[3]) for x in c]
        same_proc = a == b
        same_fresh = a2 == c2
        nerr = sum(1 for x in a if x[3])
        print("%s: %d seeds, same-process repeat %s, fresh interpreter (other PYTHONHASHSEED) %s, harness errors %d"
              % (p, len(a), "identical" if same_proc else "DIFFERENT", "identical" if same_fresh else "DIFFERENT", nerr))
        if not (same_proc and same_fresh) or nerr:
            bad += 1
            for i, (x, y, z) in enumerate(zip(a, b, c2)):
                if x != y or (x[0], x[1], x[2], x[3]) != z:
                    print("   first divergence at index", i)
                    break
    return 2 if bad else 0


def main(what, props, seed):
    props = [p.upper() for p in props]
    if what == "setup":
        return setup()
    if what == "model":
        return model()
    if what == "determinism":
        return determinism(props, seed)
    print("unknown selftest", what)
    return 2
