"""MCU-side seams: fake SPI buses, pins, module patching, in-memory file system, world builder."""
import io
import sys

from . import core
from .core import MCU, Sim, HarnessError, VTIME, stream, US
from .chip import Radio
from .air import Air, FaultPlan

import os
_R = os.environ.get("VERIF_REPO_ROOT", "/repo")
sys.path.insert(0, _R) if _R not in sys.path else None

import circuitpython_nrf24l01.rf24 as _rf24mod  # noqa: E402
import circuitpython_nrf24l01.rf24_lite as _litemod  # noqa: E402
import circuitpython_nrf24l01.network.mixins as _mixmod  # noqa: E402
import circuitpython_nrf24l01.rf24_mesh as _meshmod  # noqa: E402
import circuitpython_nrf24l01.fake_ble as _blemod  # noqa: E402
import circuitpython_nrf24l01.network.structs as _structs  # noqa: E402
import adafruit_bus_device.spi_device as _spidevmod  # noqa: E402

_HDR = _structs.RF24NetworkHeader
_ID_ATTR = "_RF24NetworkHeader__next_id"


class Pin:
    """digitalio.DigitalInOut stand-in.  `cost` False => not a scheduling point (CSN)."""

    def __init__(self, mcu, on_change=None, seam=True):
        self.mcu, self.on_change, self._v, self.seam = mcu, on_change, False, seam
        self.writes = 0

    def switch_to_output(self, value=False, **_):
        self.value = value

    @property
    def value(self):
        return self._v

    @value.setter
    def value(self, v):
        if self.seam:
            core.CUR.advance(self.mcu.pin_cost())
        self._v = bool(v)
        self.writes += 1
        if self.on_change is not None:
            try:
                self.on_change(self._v)
            except core.SimAbort:
                raise
            except Exception as e:  # chip model defect
                raise HarnessError("chip model failed in set_ce: %r" % (e,)) from e


class FakeSpiDev:
    """spidev.SpiDev stand-in (type name must end in 'SpiDev' to select SPIDevCtx)."""

    def __init__(self, mcu, radio):
        self.mcu, self.radio = mcu, radio
        self.no_cs = False
        self.opened = 0

    def open(self, bus, dev):
        self.opened += 1

    def close(self):
        pass

    def xfer2(self, out, baud=0):
        core.CUR.advance(self.mcu.spi_cost(len(out)))
        try:
            return list(self.radio.xfer(bytes(out)))
        except core.SimAbort:
            raise
        except Exception as e:
            raise HarnessError("chip model failed in xfer: %r" % (e,)) from e


FakeSpiDev.__name__ = "FakeSpiDev"


class BusioSPI:
    """busio.SPI stand-in used through the real adafruit_bus_device.SPIDevice."""

    def __init__(self, mcu, radio, csn):
        self.mcu, self.radio, self.csn = mcu, radio, csn
        self.locked = False
        self.in_txn = False
        csn.on_change = self._cs

    def _cs(self, v):
        if not v:
            self.in_txn = False  # falling edge: a new transaction may start

    def try_lock(self):
        if self.locked:
            return False
        self.locked = True
        return True

    def unlock(self):
        self.locked = False

    def configure(self, **_):
        pass

    def write_readinto(self, out_buf, in_buf, *, out_start=0, out_end=None, in_start=0, in_end=None):
        out_end = len(out_buf) if out_end is None else out_end
        in_end = len(in_buf) if in_end is None else in_end
        out = bytes(out_buf[out_start:out_end])
        core.CUR.advance(self.mcu.spi_cost(len(out)))
        if self.csn.value:  # CSN high: the chip ignores the clocks
            return
        if self.in_txn:
            raise HarnessError("multi-part SPI transaction is not modelled")
        self.in_txn = True
        try:
            resp = self.radio.xfer(out)
        except core.SimAbort:
            raise
        except Exception as e:
            raise HarnessError("chip model failed in xfer: %r" % (e,)) from e
        n = min(len(resp), in_end - in_start)
        in_buf[in_start:in_start + n] = resp[:n]

    def write(self, buf, *, start=0, end=None):
        end = len(buf) if end is None else end
        out = bytes(buf[start:end])
        if self.csn.value:
            return  # extra clocks with CSN high (SPIDevice extra_clocks): ignored by the chip
        core.CUR.advance(self.mcu.spi_cost(len(out)))
        if self.in_txn:
            raise HarnessError("multi-part SPI transaction is not modelled")
        self.in_txn = True
        self.radio.xfer(out)

    def readinto(self, buf, *, start=0, end=None, write_value=0):
        raise HarnessError("readinto is not used by the library")


class MemFS:
    """In-memory file system bound to rf24_mesh's module-global `open`."""

    def __init__(self):
        self.files = {}

    def open(self, name, mode="r", *a, **k):
        fs = self

        if "w" in mode:
            class _W(io.BytesIO):
                def close(self_inner):
                    fs.files[name] = self_inner.getvalue()
                    super().close()
            return _W()
        if name not in self.files:
            raise FileNotFoundError(name)
        return io.BytesIO(self.files[name])


_installed = False


def install():
    """Bind the library's module-level seams to the simulator (idempotent, no repo edits)."""
    global _installed
    if _installed:
        return
    _rf24mod.time = VTIME
    _litemod.time = VTIME
    _mixmod.time = VTIME
    _meshmod.time = VTIME
    _spidevmod.time = VTIME  # SPIDevice.__enter__ sleeps while the bus is locked
    _installed = True


def set_header_id(v):
    setattr(_HDR, _ID_ATTR, v)     # (stored as it is: the counter's wrap-around is the library's business)


def get_header_id():
    return getattr(_HDR, _ID_ATTR)


def _swap_ids(old, new):
    if old.mcu is new.mcu:
        return
    old.mcu.next_id = get_header_id()
    set_header_id(new.mcu.next_id)


class World:
    """One simulation: Sim + Air + helpers to build MCUs, radios and driver objects."""

    def __init__(self, seed=0, plan=None, max_events=2_000_000, max_time=600 * core.SEC, keep_trace=False,
                 main_knobs=None):
        install()
        self.seed = seed
        self.knob_rng = stream(seed, "knobs")
        self.sim = Sim(seed, max_events=max_events, max_time=max_time, keep_trace=keep_trace,
                       main_mcu=self.make_mcu("main", **(main_knobs or {})))
        self.plan = plan if isinstance(plan, FaultPlan) else FaultPlan(plan)
        self.air = Air(self.sim, self.plan)
        self.sim.switch_hooks.append(_swap_ids)
        set_header_id(self.sim.main.mcu.next_id)
        self.fs = MemFS()
        _meshmod.open = self.fs.open
        self.urandom_rng = stream(seed, "urandom")
        _blemod.urandom = self.urandom
        self.radios = {}

    def urandom(self, n):
        return bytes(self.urandom_rng.getrandbits(8) for _ in range(n))

    def make_mcu(self, name, **kw):
        return MCU(name, stream(self.seed, "mcu:" + name), **kw)

    def radio(self, name, plus=True):
        r = Radio(self.sim, self.air, name, plus=plus)
        self.radios[name] = r
        return r

    def bus(self, radio, mcu=None, backend="spidev"):
        """Returns (spi, csn, ce) constructor arguments for a driver on `radio`."""
        mcu = mcu or self.sim.main.mcu
        ce = Pin(mcu, radio.set_ce)
        if backend == "spidev":
            return FakeSpiDev(mcu, radio), 0, ce
        csn = Pin(mcu, seam=False)
        csn._v = True
        return BusioSPI(mcu, radio, csn), csn, ce

    def close(self):
        try:
            self.sim.shutdown()
        finally:
            _meshmod.open = open
            core.CUR = None


def random_mcu_knobs(rng, fault=False, stalls=True):
    """Swarm-style MCU personality (DESIGN.md 2.2)."""
    ovh = rng.choice([5, 20, 50, 100, 200, 400])
    k = {"spi_overhead_us": ovh, "spi_jitter_us": rng.choice([0, ovh // 4, ovh]),
         "pin_us": rng.choice([1, 2, 5, 20]), "clock_us": rng.choice([1, 2, 5]),
         "rate": 1.0 + rng.uniform(-0.02, 0.02), "epoch_ns": rng.randrange(0, 10**12),
         "oversleep_us": rng.choice([0, 20, 200]), "poll_us": rng.choice([100, 300, 500, 1000, 2000])}
    if stalls and rng.random() < 0.5:
        k["stall_prob"] = rng.choice([0.001, 0.005, 0.02])
        k["stall_us"] = (5000, 60000) if fault else (100, 5000)
    return k


class Injector:
    """A bare chip model scripted by the harness (no driver): puts arbitrary packets on the air."""

    def __init__(self, world, name="inj", channel=76, rate=1, aw=5, crc=2, esb=True, dpl=True):
        self.w = world
        self.radio = world.radio(name)
        r = self.radio
        r.r[0] = 0x02 | ({0: 0, 1: 0x08, 2: 0x0C}[crc])
        r.r[1] = 0x3F if esb else 0
        r.r[4] = 0x10 if esb else 0          # ARC = 0: one attempt per upload
        r.r[2] = 0x01
        r.r[3] = aw - 2
        r.r[5] = channel
        r.r[6] = {1: 0x07, 2: 0x0F, 250: 0x27}[rate]
        r.r[0x1C] = 0x3F if dpl else 0
        r.r[0x1D] = 0x05 if dpl else 0x01
        self.esb = esb

    def send(self, addr, payload, want_ack=False, settle=True):
        """Transmit one packet; returns True when an ACK was requested and received."""
        r = self.radio
        sim = self.w.sim
        r.a[0x10][: len(addr)] = addr
        r.a[0x0A][: len(addr)] = addr
        r.flags = 0
        r.tx_fifo.clear()
        r.rx_fifo.clear()
        r.set_ce(False)
        r.xfer(bytes([0xA0 if want_ack else 0xB0]) + bytes(payload))
        r.set_ce(True)
        for _ in range(200000):
            if not r.txing and not r.tx_fifo or r.flags & 0x10:
                break
            sim.advance(20_000)
        r.set_ce(False)
        ok = bool(r.flags & 0x20)
        if settle:
            for _ in range(2000):
                if self.w.air.idle() and not any(x.acking for x in self.w.air.radios):
                    break
                sim.advance(20_000)
        return ok
