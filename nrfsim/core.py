"""Deterministic discrete-event core: virtual time, one event heap, baton-passed tasks.

Exactly one thread is runnable at any moment.  A task runs until it reaches a seam
(`Sim.advance`, `Sim.park`), queues a RESUME event for itself and then executes the event
loop itself; when the loop pops a RESUME that belongs to another task the baton (a plain
lock) is handed over.  Who runs next is decided only by the heap order
`(time, tiebreak, seq)`; tiebreaks of task resumes are drawn from the run's `sched` PRNG
stream.  Nothing here reads a real clock or depends on real thread scheduling.
"""
import hashlib
import heapq
import random
import threading
import traceback

US = 1_000
MS = 1_000_000
SEC = 1_000_000_000

CUR = None  # the Sim that is executing in this process (one at a time)


class SimAbort(BaseException):
    """Raised inside every task at its next seam when a run is being torn down."""


class HarnessError(Exception):
    """A defect of the simulator / harness, never of the library under test."""


def stream(seed, name):
    """Independent PRNG stream derived from (seed, name); stable across interpreters."""
    h = hashlib.blake2b(("%d/%s" % (seed, name)).encode(), digest_size=8).digest()
    return random.Random(int.from_bytes(h, "big"))


class MCU:
    """Timing personality of one simulated micro-controller (the seams' virtual costs)."""

    def __init__(self, name="mcu", rng=None, spi_overhead_us=30, spi_jitter_us=10, f_spi=10_000_000,
                 pin_us=2, clock_us=1, rate=1.0, epoch_ns=0, oversleep_us=0,
                 stall_prob=0.0, stall_us=(0, 0), poll_us=300):
        self.name = name
        self.rng = rng or random.Random(0)
        self.spi_overhead = int(spi_overhead_us * US)
        self.spi_jitter = int(spi_jitter_us * US)
        self.byte_ns = int(8 * SEC / f_spi)
        self.pin_ns = int(pin_us * US)
        self.clock_ns = max(1, int(clock_us * US))
        self.rate = rate
        self.epoch = int(epoch_ns)
        self.oversleep = int(oversleep_us * US)
        self.stall_prob = stall_prob
        self.stall_ns = (int(stall_us[0] * US), int(stall_us[1] * US))
        self.poll_ns = int(poll_us * US)
        self.next_id = 0  # per-device copy of RF24NetworkHeader's process-global counter
        self.stalls = 0
        self.pending_stall = 0   # explicit fault, set by a harness rule: the MCU's next bus/clock operation takes this much longer

    def knobs(self):
        return {"spi_overhead_us": self.spi_overhead // US, "spi_jitter_us": self.spi_jitter // US,
                "pin_us": self.pin_ns // US, "clock_us": self.clock_ns // US, "rate": self.rate,
                "epoch_ns": self.epoch, "oversleep_us": self.oversleep // US,
                "stall_prob": self.stall_prob, "stall_us": [self.stall_ns[0] // US, self.stall_ns[1] // US],
                "poll_us": self.poll_ns // US}

    def _stall(self):
        if self.pending_stall:
            d, self.pending_stall = self.pending_stall, 0
            self.stalls += 1
            return d
        if self.stall_prob and self.rng.random() < self.stall_prob:
            self.stalls += 1
            return self.rng.randint(*self.stall_ns)
        return 0

    def spi_cost(self, nbytes):
        j = self.rng.randint(0, self.spi_jitter) if self.spi_jitter else 0
        return self.spi_overhead + j + nbytes * self.byte_ns + self._stall()

    def pin_cost(self):
        return self.pin_ns

    def clock_cost(self):
        return self.clock_ns + self._stall()

    def sleep_cost(self, seconds):
        d = int(max(0.0, seconds) * SEC / self.rate)
        if self.oversleep:
            d += self.rng.randint(0, self.oversleep)
        return d + self.clock_ns

    def local_ns(self, now):
        return self.epoch + int(now * self.rate)


_RESUME = object()


class Task:
    def __init__(self, sim, name, fn, mcu):
        self.sim, self.name, self.fn, self.mcu = sim, name, fn, mcu
        self.lock = threading.Lock()
        self.lock.acquire()
        self.done = False
        self.started = False
        self.exc = None
        self.exc_tb = None
        self.result = None
        self.thread = None
        self.parked = False
        self.finished = threading.Event()

    def __repr__(self):
        return "<Task %s>" % self.name


class Sim:
    def __init__(self, seed=0, max_events=2_000_000, max_time=600 * SEC, keep_trace=False, main_mcu=None):
        global CUR
        self.seed = seed
        self.now = 0
        self.heap = []
        self.seq = 0
        self.sched_rng = stream(seed, "sched")
        self.events = 0
        self.switches = 0
        self.max_events, self.max_time = max_events, max_time
        self.aborting = False
        self.cap_hit = None
        self.tasks = []
        self.h = hashlib.blake2b(digest_size=8)
        self.hi = hashlib.blake2b(digest_size=8)
        self.keep_trace = keep_trace
        self.trace = []
        self.stop = False
        self.counters = {}
        self.switch_hooks = []
        self.harness_exc = None
        self.main = Task(self, "main", None, main_mcu or MCU("main", stream(seed, "mcu:main")))
        self.main.started = True
        self.current = self.main
        CUR = self

    # ------------------------------------------------------------------ logging
    def log(self, kind, node, *details):
        """Record an event.  Never draws randomness, never reads a real clock."""
        rec = (self.now, kind, node) + details
        self.h.update(repr(rec).encode())
        self.hi.update(("%s/%s;" % (kind, node)).encode())
        if self.keep_trace:
            self.trace.append(rec)

    def count(self, key, n=1):
        self.counters[key] = self.counters.get(key, 0) + n

    def digest(self):
        return self.h.hexdigest()

    def isig(self):
        return self.hi.hexdigest()

    # ------------------------------------------------------------------ events
    def at(self, t, fn, *args):
        self.seq += 1
        heapq.heappush(self.heap, (int(t), 0, self.seq, fn, args))

    def after(self, d, fn, *args):
        self.at(self.now + int(d), fn, *args)

    def _push_resume(self, task, t):
        self.seq += 1
        heapq.heappush(self.heap, (int(t), self.sched_rng.randrange(1, 1 << 30), self.seq, _RESUME, task))

    # ------------------------------------------------------------------ task side
    def advance(self, d):
        """The running task consumes `d` ns of virtual time (a seam)."""
        if self.aborting:
            raise SimAbort()
        me = self.current
        target = self.now + int(d)
        if not self.heap or self.heap[0][0] > target:
            self.now = target
            if target > self.max_time:
                self._cap("time")
                self._abort_from(me)
            return
        self._push_resume(me, target)
        self._dispatch(me)

    def park(self):
        """The running task blocks until somebody calls wake() for it."""
        if self.aborting:
            raise SimAbort()
        me = self.current
        me.parked = True
        self._dispatch(me)

    def wake(self, task, at=None):
        if task.parked and not task.done:
            task.parked = False
            self._push_resume(task, self.now if at is None else max(self.now, int(at)))

    def _cap(self, what):
        if not self.aborting:
            self.aborting = True
            self.cap_hit = what

    def _abort_from(self, me):
        """Called with `aborting` set by the thread that holds the baton."""
        if me is self.main:
            raise SimAbort()
        # main is blocked on its lock: let it run (it raises SimAbort and tears the run down)
        self.current = self.main
        self.main.lock.release()
        if me.done:
            return
        me.lock.acquire()
        raise SimAbort()

    def _dispatch(self, me):
        while True:
            if not self.heap:
                self._cap("deadlock")
                return self._abort_from(me)
            ev = heapq.heappop(self.heap)
            self.now = ev[0]
            self.events += 1
            if self.events > self.max_events:
                self._cap("events")
            elif self.now > self.max_time:
                self._cap("time")
            if self.aborting:
                return self._abort_from(me)
            if ev[3] is _RESUME:
                tgt = ev[4]
                if tgt.done:
                    continue
                if tgt is me:
                    return
                self._switch(me, tgt)
                if me.done:
                    return
                me.lock.acquire()
                if self.aborting:
                    raise SimAbort()
                return
            try:
                ev[3](*ev[4])
            except SimAbort:
                raise
            except Exception:  # a defect of the chip/air model, not of the library
                self.harness_exc = traceback.format_exc()
                self._cap("harness")
                return self._abort_from(me)

    def _switch(self, old, new):
        self.switches += 1
        for hook in self.switch_hooks:
            hook(old, new)
        self.current = new
        if not new.started:
            new.started = True
            new.thread.start()
        else:
            new.lock.release()

    # ------------------------------------------------------------------ tasks
    def spawn(self, name, fn, mcu, start_at=None):
        t = Task(self, name, fn, mcu)
        t.thread = threading.Thread(target=self._thread_main, args=(t,), daemon=True, name="sim-" + name)
        self.tasks.append(t)
        self._push_resume(t, self.now if start_at is None else start_at)
        return t

    def _thread_main(self, t):
        try:
            if not self.aborting:
                t.result = t.fn()
        except SimAbort:
            pass
        except BaseException as e:  # library or harness exception escaping a task
            t.exc = e
            t.exc_tb = traceback.format_exc()
            self.log("task_exc", t.name, type(e).__name__)
        t.done = True
        t.finished.set()
        if self.aborting:
            # during teardown main owns the baton and waits on `finished`
            return
        self.log("task_done", t.name)
        try:
            self._dispatch(t)
        except SimAbort:
            pass

    def sleep_until(self, t):
        if t > self.now:
            self.advance(t - self.now)

    def join(self, tasks=None, timeout=None, step=MS):
        """Main waits (in virtual time) until the given tasks are done."""
        tasks = self.tasks if tasks is None else tasks
        deadline = None if timeout is None else self.now + int(timeout)
        while not all(t.done for t in tasks):
            if deadline is not None and self.now >= deadline:
                return False
            self.advance(step)
        return True

    def shutdown(self):
        """Tear the run down: every unfinished task unwinds with SimAbort. Main thread only."""
        global CUR
        self.aborting = True
        for t in self.tasks:
            if not t.done:
                if not t.started:
                    t.started = True
                    t.done = True
                    t.finished.set()
                    continue
                t.lock.release()
                if not t.finished.wait(30):
                    raise HarnessError("task %s did not unwind" % t.name)
        for t in self.tasks:
            if t.thread is not None and t.thread.is_alive():
                t.thread.join(5)
        self.heap.clear()
        if CUR is self:
            CUR = None


class VTime:
    """Replacement for the `time` module attribute of the library modules."""

    def _sim(self):
        s = CUR
        if s is None:
            raise HarnessError("library read the clock outside a simulation")
        return s

    def sleep(self, seconds):
        if seconds < 0:
            raise ValueError("sleep length must be non-negative")     # as time.sleep() does
        s = self._sim()
        s.advance(s.current.mcu.sleep_cost(seconds))

    def monotonic_ns(self):
        s = self._sim()
        m = s.current.mcu
        s.advance(m.clock_cost())
        return m.local_ns(s.now)

    def monotonic(self):
        return self.monotonic_ns() / 1e9

    def time(self):
        return self.monotonic()


VTIME = VTime()
