"""Datasheet-derived model of the nRF24L01 / nRF24L01+ (DESIGN.md 2.3, decisions M1..M10).

One instance per radio.  It is touched only through SPI transactions (`xfer`), the CE input
(`set_ce`) and air events (`on_packet`, `on_ack`).  Everything the checks call "ground truth"
(ESB cycles, FIFO contents, mode, register lint) is recorded here.
"""
from .core import US

RESET = {
    0x00: 0x08, 0x01: 0x3F, 0x02: 0x03, 0x03: 0x03, 0x04: 0x03, 0x05: 0x02, 0x06: 0x0E,
    0x0C: 0xC3, 0x0D: 0xC4, 0x0E: 0xC5, 0x0F: 0xC6,
    0x11: 0, 0x12: 0, 0x13: 0, 0x14: 0, 0x15: 0, 0x16: 0, 0x1C: 0, 0x1D: 0,
}
# documented (non-reserved) bits of each writable single-byte register
WMASK = {0x00: 0x7F, 0x01: 0x3F, 0x02: 0x3F, 0x03: 0x03, 0x04: 0xFF, 0x05: 0x7F, 0x06: 0xBF,
         0x0C: 0xFF, 0x0D: 0xFF, 0x0E: 0xFF, 0x0F: 0xFF,
         0x11: 0x3F, 0x12: 0x3F, 0x13: 0x3F, 0x14: 0x3F, 0x15: 0x3F, 0x16: 0x3F, 0x1C: 0x3F, 0x1D: 0x07}
CONFIG_REGS = tuple(range(0x00, 0x07)) + tuple(range(0x0A, 0x17)) + (0x1C, 0x1D)

T_SETTLE = 130 * US  # Tstby2a, RX/TX settling
RX_DR, TX_DS, MAX_RT = 0x40, 0x20, 0x10


class Radio:
    def __init__(self, sim, air, name, plus=True):
        self.sim, self.air, self.name, self.plus = sim, air, name, plus
        self.r = dict(RESET)
        self.a = {0x0A: bytearray(b"\xe7" * 5), 0x0B: bytearray(b"\xc2" * 5), 0x10: bytearray(b"\xe7" * 5)}
        self.tx_fifo = []   # dicts: kind ("tx"|"ack"), data, pid / pipe, noack
        self.rx_fifo = []   # (pipe, bytes)
        self.rx_discards = []   # (time, n) FLUSH_RX commands that threw away unread payloads
        self.rx_reconf = []     # (time, what, old, new, active_for_ns, was_enabled) pipe 0 changed while the receiver was active
        self.flags = 0      # RX_DR | TX_DS | MAX_RT
        self.ce = False
        self.pid = 0
        self.last_rx = None           # (pid, crc-equivalent key) of the previous ESB packet
        self.rx_since = None          # instant since which the receiver chain is settled, else None
        self.txing = False            # an ESB/SB transmit cycle is in progress
        self.ack_wait = None          # (lo, hi, token) while a PTX listens for its ACK
        self.acking = False           # PRX is busy sending an auto-ACK
        self.arc_cnt = 0
        self.plos = 0
        self.features_active = plus   # non-plus: FEATURE/DYNPD gated by ACTIVATE 0x73
        self.tx_reuse = False
        self.ack_inflight = {}        # pipe -> fifo entry already attached to an ACK
        self.token = 0
        self.stats = {"tx": 0, "rx": 0, "ack_tx": 0, "ack_rx": 0, "dup": 0, "rxfull": 0, "max_rt": 0,
                      "tx_ds": 0, "ackpl_rx": 0}
        self.cycles = []              # ground truth of every transmit cycle
        self.cur_cycle = None
        self.lint = []                # (time, reg, value, what)
        self.spi_log = None           # list of (time, mosi bytes) when enabled
        self.ce_log = None            # list of (time, level, config) when enabled
        self.on_rx_dr = None          # harness callback (lazy idle polling)
        self.on_store = None          # harness callback(pipe, payload) when a payload enters the RX FIFO (explicit fault rules hook in here)
        self.irq_edges = 0
        self.carrier = False
        self.mon = None               # optional monitor object with callbacks
        air.register(self)

    # ------------------------------------------------------------------ derived state
    @property
    def aw(self):
        v = self.r[3] & 3
        return v + 2 if v else 2  # '00' is illegal; treated as 2 bytes

    def pipe_addr(self, p):
        if p < 2:
            return bytes(self.a[0x0A + p][: self.aw])
        return bytes([self.r[0x0A + p]]) + bytes(self.a[0x0B][1: self.aw])

    def listen_addrs(self):
        """{address bytes: pipe} for every enabled pipe (lowest pipe wins on duplicates)."""
        out = {}
        en = self.r[2]
        for p in range(5, -1, -1):
            if en & (1 << p):
                out[self.pipe_addr(p)] = p
        return out

    @property
    def feat(self):
        return self.r[0x1D] if self.features_active else 0

    @property
    def dynpd(self):
        return self.r[0x1C] if self.features_active else 0

    @property
    def crclen(self):
        c = self.r[0]
        if (self.r[1] & 0x3F) or (c & 8):
            return 2 if c & 4 else 1
        return 0

    @property
    def esb(self):
        """Enhanced ShockBurst framing (PCF present) unless EN_AA == 0 and ARC == 0, which is how the
        datasheet (7.10) says ESB is disabled for nRF2401 compatibility - the fake-BLE trick needs it."""
        return bool(self.r[1] & 0x3F) or bool(self.r[4] & 0x0F)

    @property
    def rate(self):
        v = self.r[6] & 0x28
        return {0: 1.0, 8: 2.0}.get(v, 0.25)

    @property
    def pwr_up(self):
        return bool(self.r[0] & 2)

    @property
    def prim_rx(self):
        return bool(self.r[0] & 1)

    def in_rx(self):
        return self.rx_since is not None

    def status(self):
        pipe = self.rx_fifo[0][0] if self.rx_fifo else 7
        return self.flags | (pipe << 1) | (len(self.tx_fifo) >= 3)

    def fifo_status(self):
        v = 0
        if not self.rx_fifo:
            v |= 1
        if len(self.rx_fifo) >= 3:
            v |= 2
        if not self.tx_fifo:
            v |= 0x10
        if len(self.tx_fifo) >= 3:
            v |= 0x20
        if self.tx_reuse:
            v |= 0x40
        return v

    def irq_active(self):
        """IRQ pin (active low on silicon): asserted when an unmasked flag is latched."""
        return bool(self.flags & ~self.r[0] & 0x70)

    def config_snapshot(self):
        """All configuration registers as a dict reg -> bytes (what C03/C09 compare)."""
        snap = {}
        for reg in CONFIG_REGS:
            if reg in self.a:
                snap[reg] = bytes(self.a[reg])
            else:
                snap[reg] = bytes([self.reg_value(reg)])
        return snap

    def reg_value(self, reg):
        if reg in (0x1C, 0x1D) and not self.features_active:
            return 0
        return self.r.get(reg, 0)

    # ------------------------------------------------------------------ SPI
    def xfer(self, out):
        out = bytes(out)
        st = self.status()  # M1: STATUS as it was when CSN fell
        if not out:
            return b""
        cmd = out[0]
        data = out[1:]
        resp = bytearray(len(data))
        if self.spi_log is not None:
            self.spi_log.append((self.sim.now, out))
        if cmd < 0x20:  # R_REGISTER
            reg = cmd
            if reg in self.a:
                src = bytes(self.a[reg])
            elif reg == 7:
                src = bytes([st])
            elif reg == 8:
                src = bytes([(self.plos << 4) | self.arc_cnt])
            elif reg == 0x17:
                src = bytes([self.fifo_status()])
            elif reg == 9:
                src = bytes([self.air.rpd(self)])
            else:
                src = bytes([self.reg_value(reg)])
            for i in range(len(resp)):
                resp[i] = src[i] if i < len(src) else src[-1]
        elif cmd < 0x40:  # W_REGISTER
            if data:
                self.write_reg(cmd & 0x1F, data)
        elif cmd == 0x50:  # ACTIVATE (non-plus only)
            if not self.plus and data[:1] == b"\x73":
                self.features_active = not self.features_active
        elif cmd == 0x60:  # R_RX_PL_WID
            w = len(self.rx_fifo[0][1]) if self.rx_fifo else 0
            for i in range(len(resp)):
                resp[i] = w
        elif cmd == 0x61:  # R_RX_PAYLOAD (M5: removes the head payload)
            pl = self.rx_fifo.pop(0)[1] if self.rx_fifo else b""
            for i in range(len(resp)):
                resp[i] = pl[i] if i < len(pl) else 0
        elif cmd in (0xA0, 0xB0) or 0xA8 <= cmd <= 0xAD:
            if len(self.tx_fifo) < 3 and 0 < len(data) <= 32:
                if 0xA8 <= cmd <= 0xAD:
                    ent = {"kind": "ack", "pipe": cmd & 7, "data": data, "t": self.sim.now}
                else:
                    self.pid = (self.pid + 1) & 3  # M4: PID per uploaded payload
                    ent = {"kind": "tx", "noack": cmd == 0xB0, "data": data, "pid": self.pid, "t": self.sim.now}
                self.tx_fifo.append(ent)
                self.tx_reuse = False
                self.kick_tx()
            else:
                self.sim.count("chip_tx_upload_ignored")
        elif cmd == 0xE1:  # FLUSH_TX
            self.tx_fifo.clear()
            self.ack_inflight.clear()
            self.tx_reuse = False
        elif cmd == 0xE2:  # FLUSH_RX
            if self.rx_fifo:
                # reach/diagnosis: received payloads discarded unread by the MCU
                self.rx_discards.append((self.sim.now, len(self.rx_fifo)))
                self.sim.count("chip_rx_flushed_unread", len(self.rx_fifo))
            self.rx_fifo.clear()
        elif cmd == 0xE3:  # REUSE_TX_PL
            self.tx_reuse = True
        # 0xFF NOP and anything else: status only
        return bytes([st]) + bytes(resp)

    def _lint(self, reg, val, what):
        self.lint.append((self.sim.now, reg, val, what))

    def write_reg(self, reg, data):
        if reg in self.a:
            if len(data) > 5:
                self._lint(reg, len(data), "address write longer than 5 bytes")
            if reg == 0x0A and self.rx_since is not None and self.sim.now >= self.rx_since and bytes(self.a[reg][: len(data[:5])]) != bytes(data[:5]):
                # diagnosis: pipe 0 re-addressed while the receiver was already active (it listened on the old address until now)
                self.rx_reconf.append((self.sim.now, "addr", bytes(self.a[reg]), bytes(data[:5]), self.sim.now - self.rx_since, bool(self.r[2] & 1)))
            self.a[reg][: len(data[:5])] = data[:5]
            self.air.addr_changed(self)
            return
        val = data[0]
        if reg == 7:
            old = self.flags
            self.flags &= ~(val & 0x70)
            if val & 0x8F & ~0x0F:
                self._lint(reg, val, "reserved bit")
            if old & MAX_RT and not self.flags & MAX_RT:
                self.kick_tx()
            return
        if reg in (8, 9, 0x17):
            return  # read-only
        if reg not in WMASK:
            self._lint(reg, val, "write to undefined register")
            return
        if val & ~WMASK[reg]:
            self._lint(reg, val, "reserved bit set")
        if 0x11 <= reg <= 0x16 and val > 32:
            self._lint(reg, val, "RX_PW > 32")
        if reg == 6 and (val & 0x28) == 0x28:
            self._lint(reg, val, "RF_DR_LOW and RF_DR_HIGH both set")
        if reg == 3 and (val & 3) == 0:
            self._lint(reg, val, "SETUP_AW illegal value 00")
        if reg in (0x1C, 0x1D) and not self.features_active:
            return
        old = self.r.get(reg, 0)
        if reg == 2 and (old ^ val) & 1 and self.rx_since is not None and self.sim.now >= self.rx_since:
            self.rx_reconf.append((self.sim.now, "enable", old & 1, val & 1, self.sim.now - self.rx_since, bool(old & 1)))
        self.r[reg] = val & 0xFF
        if reg == 5 and val != old:
            self.plos = 0
        elif reg == 5:
            self.plos = 0
        if reg == 0:
            if self.ce_log is not None:
                self.ce_log.append((self.sim.now, "config", old, val, self.ce))
            self.mode_changed()
        elif reg in (5, 6):
            self.carrier = bool(self.r[6] & 0x80) and bool(self.r[6] & 0x10)
            if old != val:
                self.mode_changed(retune=True)
        elif reg in (2, 3) or 0x0C <= reg <= 0x0F:
            self.air.addr_changed(self)

    # ------------------------------------------------------------------ mode
    def set_ce(self, v):
        v = bool(v)
        if v == self.ce:
            return
        self.ce = v
        if self.ce_log is not None:
            self.ce_log.append((self.sim.now, "ce", v, self.r[0], None))
        self.mode_changed()

    def mode_changed(self, retune=False):
        c = self.r[0]
        want_rx = self.ce and (c & 3) == 3 and not self.txing and not self.acking
        if want_rx and (self.rx_since is None or retune):
            self.rx_since = self.sim.now + T_SETTLE
            self.air.rx_changed(self)
        elif not want_rx and self.rx_since is not None:
            self.rx_since = None
            self.air.rx_changed(self)
        self.kick_tx()

    def kick_tx(self):
        c = self.r[0]
        if self.txing or self.acking or not self.ce or (c & 3) != 2 or self.flags & MAX_RT:
            return      # (M12: an auto-ACK in progress is finished first - _ack_done() kicks the transmitter again)
        # M11: a PTX sends the TX FIFO in order whatever command loaded the head entry - a payload armed with W_ACK_PAYLOAD while
        # the chip was a PRX and never used goes out as an ordinary payload (why drivers flush the TX FIFO when they leave RX mode)
        if not self.tx_fifo:
            return
        ent = self.tx_fifo[0]
        if ent["kind"] == "ack":
            self.pid = (self.pid + 1) & 3
            ent.update({"kind": "tx", "noack": False, "pid": self.pid, "was_ack_payload": True})
            self.sim.count("chip_stale_ack_payload_sent_as_payload")
        self.txing = True
        self.arc_cnt = 0
        self.cur_cycle = {"start": self.sim.now, "data": bytes(ent["data"]), "pid": ent["pid"], "attempts": 0, "upload_t": ent["t"],
                          "end": None, "result": None, "ackpl": None, "expects_ack": None,
                          "addr": bytes(self.a[0x10][: self.aw])}
        self.cycles.append(self.cur_cycle)
        self.token += 1
        self.sim.after(T_SETTLE, self._tx_start, ent, self.token)

    def _airtime(self, plen, crclen, esb):
        bits = 8 * (1 + self.aw + plen + crclen) + (9 if esb else 0)
        return int(bits / self.rate * US)

    def _tx_start(self, ent, token):
        if token != self.token or not self.txing:
            return
        if ent not in self.tx_fifo:  # flushed while settling
            self._cycle_end("flushed")
            return
        esb = self.esb
        noack = bool(ent.get("noack")) and bool(self.feat & 1)
        expects = esb and bool(self.r[1] & 1) and not noack
        dpl = bool(self.feat & 4) and bool(self.dynpd & 1)
        pkt = {"addr": bytes(self.a[0x10][: self.aw]), "aw": self.aw, "esb": esb, "pid": ent["pid"],
               # NO_ACK bit of the PCF: only W_TX_PAYLOAD_NOACK under EN_DYN_ACK sets it (M3); a PTX whose EN_AA.P0 is
               # off merely does not wait - a PRX with auto-ack on that pipe still answers
               "noack": noack if esb else None, "len": len(ent["data"]) if (dpl and esb) else None,
               "data": bytes(ent["data"]), "crclen": self.crclen, "ack": False}
        dur = self._airtime(len(ent["data"]), self.crclen, esb)
        self.stats["tx"] += 1
        self.cur_cycle["attempts"] += 1
        self.cur_cycle["expects_ack"] = expects
        self.air.transmit(self, pkt, dur)
        self.sim.after(dur, self._tx_end, ent, expects, self.token)

    def _cycle_end(self, result):
        cyc = self.cur_cycle
        if cyc is not None:
            cyc["end"] = self.sim.now
            cyc["result"] = result
        self.cur_cycle = None
        self.txing = False
        self.ack_wait = None
        self.mode_changed()

    def _set_flag(self, f):
        before = self.irq_active()
        self.flags |= f
        if not before and self.irq_active():
            self.irq_edges += 1
        if f & RX_DR and self.on_rx_dr is not None:
            self.on_rx_dr()

    def _tx_end(self, ent, expects, token):
        if token != self.token or not self.txing:
            return
        if not expects:
            if ent in self.tx_fifo and not self.tx_reuse:
                self.tx_fifo.remove(ent)
            self._set_flag(TX_DS)
            self.stats["tx_ds"] += 1
            self.sim.log("tx_ds", self.name, "noack")
            self._cycle_end("tx_ds")
            return
        ard = ((self.r[4] >> 4) + 1) * 250 * US
        self.token += 1
        self.ack_wait = (self.sim.now, self.sim.now + ard, self.token, ent)
        self.air.ack_waiters.append(self)
        self.sim.after(ard, self._ack_timeout, self.token)

    def on_ack(self, pkt, start, end):
        """Air offers an ACK packet (M2, M7).  Returns True when it completes our cycle."""
        if not self.txing or self.ack_wait is None:
            return False
        lo, hi, token, ent = self.ack_wait
        if start < lo + T_SETTLE or end > hi:
            self.sim.count("ack_outside_window")
            return False
        if not (self.r[2] & 1) or pkt["addr"] != bytes(self.a[0x0A][: self.aw]):
            self.sim.count("ack_not_on_pipe0")
            return False
        if pkt["crclen"] != self.crclen:
            return False
        if pkt["data"]:
            if not (self.feat & 4 and self.dynpd & 1):
                return False  # an ACK payload needs DPL on pipe 0
            if len(self.rx_fifo) >= 3:
                self.stats["rxfull"] += 1
                return False
            self.rx_fifo.append((0, bytes(pkt["data"])))
            self.stats["ackpl_rx"] += 1
            self._set_flag(RX_DR)
            self.cur_cycle["ackpl"] = bytes(pkt["data"])
        if self in self.air.ack_waiters:
            self.air.ack_waiters.remove(self)
        if ent in self.tx_fifo and not self.tx_reuse:
            self.tx_fifo.remove(ent)
        self._set_flag(TX_DS)
        self.stats["ack_rx"] += 1
        self.stats["tx_ds"] += 1
        self.sim.log("tx_ds", self.name, "acked")
        self.token += 1
        self._cycle_end("tx_ds")
        return True

    def _ack_timeout(self, token):
        if not self.txing or self.ack_wait is None or self.ack_wait[2] != token:
            return
        ent = self.ack_wait[3]
        self.ack_wait = None
        if self in self.air.ack_waiters:
            self.air.ack_waiters.remove(self)
        arc = self.r[4] & 0xF
        if self.arc_cnt < arc and ent in self.tx_fifo:
            self.arc_cnt += 1
            self.token += 1
            self._tx_start(ent, self.token)
        else:
            self._set_flag(MAX_RT)
            self.plos = min(15, self.plos + 1)
            self.stats["max_rt"] += 1
            self.sim.log("max_rt", self.name)
            self.sim.count("max_rt")
            self._cycle_end("max_rt")

    # ------------------------------------------------------------------ RX
    def match_pipe(self, addr):
        en = self.r[2]
        for p in range(6):
            if en & (1 << p) and self.pipe_addr(p) == addr:
                return p
        return None

    def on_packet(self, pkt, corrupt=None):
        """Air offers a non-ACK packet that was completely inside our RX session (M8)."""
        if pkt["aw"] != self.aw or pkt["esb"] != self.esb or pkt["crclen"] != self.crclen:
            self.sim.count("rx_incompatible")
            return None
        pipe = self.match_pipe(pkt["addr"])
        if pipe is None:
            return None
        data = pkt["data"] if corrupt is None else corrupt
        if pkt["esb"]:
            dpl = bool(self.feat & 4) and bool(self.dynpd & (1 << pipe))
            if dpl:
                if pkt["len"] is None:
                    self.sim.count("rx_incompatible")
                    return None
            else:
                if pkt["len"] is not None or len(data) != (self.r[0x11 + pipe] & 0x3F):
                    self.sim.count("rx_incompatible")
                    return None
        else:
            if len(data) != (self.r[0x11 + pipe] & 0x3F):
                self.sim.count("rx_incompatible")
                return None
        key = (pkt["pid"], pkt["addr"], data, pkt["noack"]) if pkt["esb"] else None
        # datasheet, "PRX operations in Enhanced ShockBurst": the new-packet test (PID + CRC against the previous packet)
        # is only made when auto-acknowledgement is enabled for the receiving pipe (M4)
        dup = key is not None and key == self.last_rx and bool(self.r[1] & (1 << pipe))
        stored = False
        if not dup:
            if len(self.rx_fifo) >= 3:
                self.stats["rxfull"] += 1
                self.sim.count("rx_fifo_full_drop")
                self.sim.log("rx_full", self.name, pipe)
                return "full"  # neither stored nor acknowledged
            self.rx_fifo.append((pipe, bytes(data)))
            self.stats["rx"] += 1
            self.last_rx = key
            stored = True
            if self.on_store is not None:
                self.on_store(pipe, bytes(data))
            self.sim.log("rx", self.name, pipe, bytes(data))
            # a new packet on this pipe confirms the ACK payload that went out before (M6)
            ent = self.ack_inflight.pop(pipe, None)
            if ent is not None and ent in self.tx_fifo:
                self.tx_fifo.remove(ent)
                self._set_flag(TX_DS)
            self._set_flag(RX_DR)
        else:
            self.stats["dup"] += 1
            self.sim.count("pid_duplicate_dropped")
            self.sim.log("rx_dup", self.name, pipe)
        if pkt["esb"] and (self.r[1] & (1 << pipe)) and not pkt["noack"]:
            data_out = b""
            if self.feat & 2 and self.feat & 4 and self.dynpd & (1 << pipe):
                ent = self.ack_inflight.get(pipe)
                if ent is None:
                    for e in self.tx_fifo:
                        if e["kind"] == "ack" and e["pipe"] == pipe:
                            ent = e
                            self.ack_inflight[pipe] = e
                            break
                if ent is not None:
                    data_out = bytes(ent["data"])
            ack = {"addr": self.pipe_addr(pipe), "aw": self.aw, "esb": True, "pid": pkt["pid"], "noack": None,
                   "len": len(data_out), "data": data_out, "crclen": self.crclen, "ack": True}
            self.acking = True
            self.rx_since = None
            self.air.rx_changed(self)
            self.sim.after(T_SETTLE, self._ack_tx, ack)
        return "stored" if stored else "dup"

    def _ack_tx(self, ack):
        dur = self._airtime(len(ack["data"]), self.crclen, True)
        self.stats["ack_tx"] += 1
        self.air.transmit(self, ack, dur)
        self.sim.after(dur, self._ack_done)

    def _ack_done(self):
        self.acking = False
        c = self.r[0]
        if self.ce and (c & 3) == 3 and not self.txing:
            self.rx_since = self.sim.now  # receiver chain stays locked; immediately back in RX
            self.air.rx_changed(self)
        else:
            self.kick_tx()                # the driver left RX mode while the ACK was on the air (long ACKs: 250 kbps, ACK payloads)

    # ------------------------------------------------------------------ harness helpers (not SPI)
    def inject_rx(self, pipe, data):
        """Put a payload straight into the RX FIFO (used only by sequential direct drivers)."""
        if len(self.rx_fifo) >= 3:
            return False
        self.rx_fifo.append((pipe, bytes(data)))
        self._set_flag(RX_DR)
        return True
