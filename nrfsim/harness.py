"""Scenario runner: seeded search over worker processes, minimisation, replay files,
known findings and evidence (DESIGN.md section 4)."""
import concurrent.futures as cf
import faulthandler
import hashlib
import importlib.util
import json
import multiprocessing
import os
import subprocess
import sys
import time
import traceback

VERIF = os.path.dirname(os.path.dirname(os.path.abspath(__file__)))
REPLAY_DIR = os.path.join(VERIF, "replays")
KNOWN_FILE = os.environ.get("VERIF_KNOWN_FILE") or os.path.join(VERIF, "known_findings.json")   # the override is for tooling experiments only (tools/), never for registered commands
EVIDENCE_DIR = os.path.join(VERIF, "evidence")

COMPONENTS = {
    "real": ["circuitpython_nrf24l01/** (unmodified, imported from /repo working tree)",
             "adafruit_bus_device.spi_device.SPIDevice"],
    "model": ["nRF24L01(+) silicon (nrfsim.chip)", "RF medium (nrfsim.air)",
              "spidev.SpiDev / busio.SPI / digitalio pins (nrfsim.mcu)", "time.sleep/monotonic/monotonic_ns (virtual)",
              "os.urandom (seeded)", "open() for the mesh table (in-memory)",
              "application main loops and workloads (harness code)"],
}


class Violation:
    def __init__(self, clause, sig=None, detail=""):
        self.clause = clause
        self.sig = dict(sig or {})
        self.detail = detail

    def to_json(self):
        return {"clause": self.clause, "sig": self.sig, "detail": self.detail}

    def __repr__(self):
        return "Violation(%s, %r, %s)" % (self.clause, self.sig, self.detail[:200])


class Result:
    def __init__(self):
        self.violations = []
        self.stats = {}
        self.digest = ""
        self.isig = ""
        self.nontrivial = False
        self.harness_error = None
        self.inconclusive = None
        self.sample = None

    def add(self, clause, sig=None, detail=""):
        self.violations.append(Violation(clause, sig, detail))

    def count(self, key, n=1):
        self.stats[key] = self.stats.get(key, 0) + n

    def absorb_world(self, w):
        """Fold the simulator's counters into the per-run stats."""
        sim = w.sim
        self.count("events", sim.events)
        self.count("task_switches", sim.switches)
        self.count("sim_ns", sim.now)
        self.count("air_packets", w.air.n)
        for k, v in w.plan.fired.items():
            self.count("fault:" + k, v)
        for k, v in sim.counters.items():
            self.count("probe:" + k, v)
        stalls = sum(t.mcu.stalls for t in sim.tasks) + sim.main.mcu.stalls
        if stalls:
            self.count("fault:mcu_stall", stalls)
        if not self.digest:
            self.digest = sim.digest()
        if not self.isig:
            self.isig = sim.isig()
        if sim.harness_exc:
            self.harness_error = sim.harness_exc
        for t in sim.tasks:
            if t.exc is not None and type(t.exc).__name__ == "HarnessError":
                self.harness_error = t.exc_tb
        if sim.cap_hit and sim.cap_hit != "harness" and self.inconclusive is None:
            self.inconclusive = sim.cap_hit


def load_check(name):
    """Import /verif/checks/<name>.py by file path (never via -m: no double import)."""
    modname = "vchk_" + name.lower()
    if modname in sys.modules:
        return sys.modules[modname]
    path = os.path.join(VERIF, "checks", name.lower() + ".py")
    spec = importlib.util.spec_from_file_location(modname, path)
    mod = importlib.util.module_from_spec(spec)
    sys.modules[modname] = mod
    spec.loader.exec_module(mod)
    return mod


def seed_for(base_seed, i):
    return base_seed * 1_000_003 + i


def run_one(mod, scn):
    """Run one scenario; exceptions escaping the check module are harness errors."""
    try:
        res = mod.run(scn)
    except BaseException as e:  # noqa
        res = Result()
        res.harness_error = "check raised %s\n%s" % (type(e).__name__, traceback.format_exc())
    return res


# ---------------------------------------------------------------------- worker side
def _init_worker(counter):
    try:
        with counter.get_lock():
            k = counter.value
            counter.value += 1
        cpus = sorted(os.sched_getaffinity(0))
        os.sched_setaffinity(0, {cpus[k % len(cpus)]})
    except Exception:
        pass
    faulthandler.enable()


def _work(args):
    name, tier, base_seed, indices, wall_cap = args
    mod = load_check(name)
    faulthandler.dump_traceback_later(wall_cap, exit=True)
    out = {"n": 0, "nontrivial": 0, "isigs": [], "stats": {}, "viol": [], "harness": [], "inconclusive": 0,
           "samples": [], "digests": []}
    for i in indices:
        scn = mod.make(i, base_seed, tier)
        res = run_one(mod, scn)
        out["n"] += 1
        for k, v in res.stats.items():
            out["stats"][k] = out["stats"].get(k, 0) + v
        if res.harness_error:
            if len(out["harness"]) < 3:
                out["harness"].append({"i": i, "scn": scn, "err": res.harness_error})
            continue
        if res.inconclusive:
            out["inconclusive"] += 1
            out["stats"]["inconclusive:" + str(res.inconclusive)] = out["stats"].get("inconclusive:" + str(res.inconclusive), 0) + 1
        if res.nontrivial:
            out["nontrivial"] += 1
            out["isigs"].append(res.isig)
            if len(out["samples"]) < 1 and res.sample is not None:
                out["samples"].append(res.sample)
        out["digests"].append(res.digest)
        if res.violations and len(out["viol"]) < 4:
            out["viol"].append({"i": i, "scn": scn, "violations": [v.to_json() for v in res.violations]})
        elif res.violations:
            out["stats"]["violating_runs_not_reported"] = out["stats"].get("violating_runs_not_reported", 0) + 1
    faulthandler.cancel_dump_traceback_later()
    h = hashlib.blake2b(digest_size=8)
    for d in out["digests"]:
        h.update(d.encode())
    out["ndig"] = len(set(out["digests"]))
    out["digest_of_digests"] = h.hexdigest()
    out["digests"] = out["digests"] if len(indices) <= 64 else []
    return out


# ---------------------------------------------------------------------- known findings
def load_known(prop):
    if not os.path.exists(KNOWN_FILE):
        return []
    with open(KNOWN_FILE) as f:
        data = json.load(f)
    return [e for e in data.get("findings", []) if e.get("property") == prop]


def _match_value(pat, val):
    if isinstance(pat, dict):
        if "min" in pat and not (val is not None and val >= pat["min"]):
            return False
        if "max" in pat and not (val is not None and val <= pat["max"]):
            return False
        if "in" in pat and val not in pat["in"]:
            return False
        return True
    if isinstance(pat, list):
        return val in pat
    return pat == val


def match_known(entries, viol):
    """Return the `known` entry whose clause and signature pattern cover this violation."""
    for e in entries:
        if e.get("status") != "known":
            continue
        if e.get("clause") != viol["clause"]:
            continue
        if all(_match_value(p, viol["sig"].get(k)) for k, p in e.get("match", {}).items()):
            return e
    return None


# ---------------------------------------------------------------------- minimisation
def same_class(mod, a, b):
    if a["clause"] != b["clause"]:
        return False
    f = getattr(mod, "same_class", None)
    if f is not None:
        return f(a["sig"], b["sig"])
    return a["sig"].get("kind") == b["sig"].get("kind")


def _still_fails(mod, scn, target, known):
    res = run_one(mod, scn)
    if res.harness_error:
        return None
    for v in res.violations:
        vj = v.to_json()
        if same_class(mod, vj, target) and match_known(known, vj) is None:
            return vj
    return None


def _ddmin(items, test):
    """Classic ddmin on a list; `test(list)` is True when the failure persists."""
    n = 2
    while len(items) >= 2:
        chunk = max(1, len(items) // n)
        subsets = [items[i:i + chunk] for i in range(0, len(items), chunk)]
        reduced = False
        for k in range(len(subsets)):
            comp = [x for j, s in enumerate(subsets) if j != k for x in s]
            if comp != items and test(comp):
                items = comp
                n = max(n - 1, 2)
                reduced = True
                break
        if not reduced:
            if n >= len(items):
                break
            n = min(len(items), n * 2)
    if len(items) == 1 and test([]):
        items = []
    return items


def minimise(mod, scn, target, known, budget_s=60):
    """Shrink scenario lists, then apply the check's own simplification passes."""
    t_end = time.monotonic() + budget_s
    best = json.loads(json.dumps(scn))
    best_v = target
    runs = [0]

    def attempt(cand):
        nonlocal best, best_v
        if time.monotonic() > t_end:
            return False
        runs[0] += 1
        v = _still_fails(mod, cand, target, known)
        if v is not None:
            best, best_v = cand, v
            return True
        return False

    for key in getattr(mod, "SHRINK_KEYS", ("ops", "faults")):
        if isinstance(best.get(key), list) and best[key]:
            def test(lst, key=key):
                cand = json.loads(json.dumps(best))
                cand[key] = lst
                return attempt(cand)
            _ddmin(list(best[key]), test)
    simp = getattr(mod, "simplify", None)
    if simp is not None:
        progress = True
        while progress and time.monotonic() < t_end:
            progress = False
            for cand in simp(json.loads(json.dumps(best))):
                if cand != best and attempt(cand):
                    progress = True
                    break
    return best, best_v, runs[0]


# ---------------------------------------------------------------------- replay files
def write_replay(prop, scn, viol, digest, path=None, extra=None):
    os.makedirs(REPLAY_DIR, exist_ok=True)
    if path is None:
        tag = hashlib.blake2b(json.dumps(scn, sort_keys=True).encode(), digest_size=4).hexdigest()
        path = os.path.join(REPLAY_DIR, "%s-%s-%s-%s.json" % (prop, viol["clause"], scn.get("seed", 0), tag))
    doc = {"property": prop, "scenario": scn, "expect": {"clause": viol["clause"], "sig": viol["sig"]},
           "detail": viol.get("detail", ""), "digest": digest}
    if extra:
        doc.update(extra)
    with open(path, "w") as f:
        json.dump(doc, f, indent=1, sort_keys=True)
    return path


def replay_file(path, verbose=True):
    """Re-execute a replay file.  Returns (reproduced, info)."""
    with open(path) as f:
        doc = json.load(f)
    mod = load_check(doc["property"])
    res = run_one(mod, doc["scenario"])
    if res.harness_error:
        return None, {"harness_error": res.harness_error}
    hit = None
    for v in res.violations:
        vj = v.to_json()
        if same_class(mod, vj, doc["expect"]):
            hit = vj
            break
    info = {"digest": res.digest, "digest_expected": doc.get("digest"), "violations": [v.to_json() for v in res.violations],
            "digest_match": (not doc.get("digest")) or res.digest == doc.get("digest"),
            # the same clause violated with another signature: what remains of a violation whose details depend on state the library
            # carries from one run to the next inside a worker process (e.g. a class-level mutable attribute)
            "clause_hit": next((v.to_json() for v in res.violations if v.clause == doc["expect"]["clause"]), None)}
    if verbose:
        if hit:
            print("replay: reproduced clause=%s sig=%s" % (hit["clause"], json.dumps(hit["sig"], sort_keys=True)))
            print("        " + hit["detail"][:1000])
            print("        digest %s (expected %s)" % (res.digest, doc.get("digest")))
        else:
            print("replay: NOT reproduced; violations now: %s" % info["violations"])
    return hit is not None, info


# ---------------------------------------------------------------------- main driver
def run_check(name, tier, base_seed, jobs=None, only=None):
    mod = load_check(name)
    prop = mod.PROP
    t_start = time.monotonic()
    jobs = jobs or int(os.environ.get("VERIF_JOBS", "0")) or min(16, os.cpu_count() or 1)
    known = load_known(prop)
    exit_code = 0
    violations_total = 0
    known_hits = {}
    print("CHECK %s tier=%s VERIF_SEED=%d jobs=%d" % (prop, tier, base_seed, jobs), flush=True)

    # 1. committed replays of listed findings
    for e in known:
        rp = os.path.join(VERIF, e["replay"]) if e.get("replay") else None
        if not rp or not os.path.exists(rp):
            continue
        ok, info = replay_file(rp, verbose=False)
        if ok is None:
            print("HARNESS-ERROR replaying %s\n%s" % (rp, info["harness_error"]))
            return 2
        if e["status"] == "known":
            if ok:
                print("KNOWN-FINDING: property=%s %s [%s]" % (prop, e["what"], e["id"]))
                known_hits[e["id"]] = known_hits.get(e["id"], 0) + 1
            else:
                print("note: listed finding %s no longer reproduces on this tree" % e["id"])
        elif e["status"] == "fixed" and ok:
            print("regression of fixed finding %s: %s" % (e["id"], e["what"]))
            print("VIOLATION property=%s replay=%s" % (prop, rp))
            violations_total += 1
            exit_code = 1

    # 2. seeded search
    total = mod.count(tier) if only is None else len(only)
    indices = list(range(total)) if only is None else list(only)
    chunk = max(1, min(getattr(mod, "CHUNK", 50), (len(indices) + jobs * 4 - 1) // (jobs * 4)))
    chunks = [indices[i:i + chunk] for i in range(0, len(indices), chunk)]
    wall_cap = getattr(mod, "WALL_CAP_S", 600)
    agg = {"n": 0, "nontrivial": 0, "stats": {}, "inconclusive": 0}
    isigs = set()
    ndig = 0
    samples = []
    viols = []
    harness = []
    ctx = multiprocessing.get_context("fork")
    counter = ctx.Value("i", 0)
    deadline = time.monotonic() + getattr(mod, "TOTAL_WALL_S", {"quick": 900, "thorough": 7200})[tier]
    ex = cf.ProcessPoolExecutor(max_workers=jobs, mp_context=ctx, initializer=_init_worker, initargs=(counter,))
    try:
        futs = [ex.submit(_work, (name, tier, base_seed, c, wall_cap)) for c in chunks]
        for fu in futs:
            try:
                out = fu.result(timeout=max(1.0, deadline - time.monotonic()))
            except cf.TimeoutError:
                print("HARNESS-ERROR: wall-clock watchdog expired (no verdict)")
                _kill_pool(ex)
                return 2
            except cf.process.BrokenProcessPool:
                print("HARNESS-ERROR: a worker died (watchdog dump above, if any)")
                return 2
            agg["n"] += out["n"]
            agg["nontrivial"] += out["nontrivial"]
            agg["inconclusive"] += out["inconclusive"]
            for k, v in out["stats"].items():
                agg["stats"][k] = agg["stats"].get(k, 0) + v
            isigs.update(out["isigs"])
            ndig += out["ndig"]
            if len(samples) < 3:
                samples.extend(out["samples"][: 3 - len(samples)])
            viols.extend(out["viol"])
            harness.extend(out["harness"])
    finally:
        ex.shutdown(wait=False, cancel_futures=True)

    if harness:
        h = harness[0]
        print("HARNESS-ERROR in %d run(s); first: index %s\n%s" % (len(harness), h["i"], h["err"]))
        print("scenario: %s" % json.dumps(h["scn"])[:2000])
        return 2

    # 3. classify, minimise, report
    new_classes = []
    for item in viols:
        for vj in item["violations"]:
            e = match_known(known, vj)
            if e is not None:
                known_hits[e["id"]] = known_hits.get(e["id"], 0) + 1
                continue
            if any(same_class(mod, vj, c[1]) for c in new_classes):
                continue
            new_classes.append((item, vj))
    max_report = 4
    for item, vj in new_classes[:max_report]:
        best, best_v, nruns = minimise(mod, item["scn"], vj, known, budget_s=getattr(mod, "MINIMISE_S", 60))
        res = run_one(mod, best)
        path = write_replay(prop, best, best_v, res.digest, extra={"original_index": item["i"], "minimise_runs": nruns})
        # the replay must reproduce in a fresh interpreter before it is reported
        rc = subprocess.run([sys.executable, os.path.join(VERIF, "vcheck.py"), "--replay", path],
                            capture_output=True, text=True, timeout=600,
                            env=dict(os.environ, PYTHONHASHSEED="0", PYTHONDONTWRITEBYTECODE="1"))
        print("violation: clause=%s sig=%s" % (best_v["clause"], json.dumps(best_v["sig"], sort_keys=True)))
        print("  " + best_v.get("detail", "")[:1500])
        if rc.returncode == 4:
            print("note: in a fresh interpreter the replay violates the same clause with another signature - the details depend on state the "
                  "library carried over from earlier runs in the worker process; the violation itself stands")
        elif rc.returncode != 1:
            # the minimised scenario does not stand on its own.  Minimisation runs candidates one after the other inside this process; if the
            # library carries state from one run to the next (a class-level mutable attribute, a module global) a shrunk scenario may only
            # fail thanks to what ran before it.  Fall back to the scenarios as generated, each verified on its own in a fresh interpreter.
            found = None
            cands = [it for it in viols if any(same_class(mod, v2, vj) or v2["clause"] == vj["clause"] for v2 in it["violations"])][:60]
            for it in cands:
                v_it = next(v2 for v2 in it["violations"] if same_class(mod, v2, vj) or v2["clause"] == vj["clause"])
                r_it = run_one(mod, it["scn"])
                p_it = write_replay(prop, it["scn"], v_it, r_it.digest, extra={"original_index": it["i"], "minimise_runs": 0, "unminimised": True})
                rc2 = subprocess.run([sys.executable, os.path.join(VERIF, "vcheck.py"), "--replay", p_it], capture_output=True, text=True, timeout=600,
                                     env=dict(os.environ, PYTHONHASHSEED="0", PYTHONDONTWRITEBYTECODE="1"))
                if rc2.returncode in (1, 3, 4):
                    found = p_it
                    break
            if found is None:
                print("HARNESS-ERROR: replay %s did not reproduce in a fresh interpreter (rc=%s), nor did %d unminimised scenario(s) of that class\n%s"
                      % (path, rc.returncode, len(cands), rc.stdout[-2000:] + rc.stderr[-2000:]))
                return 2
            print("note: the minimised scenario does not fail on its own in a fresh interpreter (state carried over between runs in the worker "
                  "process took part in it); reporting the scenario as generated, which does")
            path = found
        print("VIOLATION property=%s replay=%s" % (prop, path))
        violations_total += 1
        exit_code = 1
    if len(new_classes) > max_report:
        print("(%d further violation classes not minimised)" % (len(new_classes) - max_report))

    incon_frac = agg["inconclusive"] / max(1, agg["n"])
    if incon_frac > getattr(mod, "MAX_INCONCLUSIVE", 0.01) and exit_code == 0:
        print("HARNESS-ERROR: %d of %d runs hit a simulation cap (inconclusive)" % (agg["inconclusive"], agg["n"]))
        exit_code = 2

    # 4. evidence
    wall = time.monotonic() - t_start
    faults = {k[6:]: v for k, v in agg["stats"].items() if k.startswith("fault:")}
    probes = {k[6:]: v for k, v in agg["stats"].items() if k.startswith("probe:")}
    other = {k: v for k, v in agg["stats"].items() if not k.startswith(("fault:", "probe:"))}
    expected_probes = getattr(mod, "PROBES", [])
    cov = {
        "evaluations": agg["n"],
        "distinct_nontrivial": len(isigs),
        "rule": mod.RULE,
        "samples": samples if samples else [{"note": "no non-trivial sample captured"}],
        "exhaustive": bool(getattr(mod, "exhaustive", lambda t: False)(tier)),
        "nontrivial_runs": agg["nontrivial"],
        "distinct_event_log_digests": ndig,
        "runs_per_hour": int(agg["n"] / max(wall, 1e-6) * 3600),
        "seeds": {"base": base_seed, "first": seed_for(base_seed, indices[0]) if indices else None,
                  "last": seed_for(base_seed, indices[-1]) if indices else None},
        "sim_time_s": round(other.get("sim_ns", 0) / 1e9, 3),
        "events": other.get("events", 0),
        "task_switches": other.get("task_switches", 0),
        "air_packets": other.get("air_packets", 0),
        "faults_fired": faults,
        "probes": probes,
        "probes_zero": [p for p in expected_probes if not probes.get(p) and not faults.get(p) and not other.get(p)],
        "other_counters": {k: v for k, v in other.items() if k not in ("sim_ns", "events", "task_switches", "air_packets")},
        "known_findings_hit": known_hits,
        "inconclusive_runs": agg["inconclusive"],
        "components": COMPONENTS,
        "clauses": getattr(mod, "CLAUSES", {}),
    }
    ev = {"property_id": prop, "tier": tier, "seed": base_seed, "level": mod.LEVEL, "coverage": cov,
          "assumptions": list(getattr(mod, "ASSUMPTIONS", [])), "wall_s": round(wall, 2), "violations": violations_total}
    # evidence describes /repo itself; a run pointed at a scratch copy (seeded-change evaluation, VERIF_REPO_ROOT) must not overwrite it
    root = os.environ.get("VERIF_REPO_ROOT", "/repo")
    ev_dir = EVIDENCE_DIR if os.path.realpath(root) == "/repo" else os.path.join(root, ".verif_evidence")
    os.makedirs(ev_dir, exist_ok=True)
    with open(os.path.join(ev_dir, prop + ".json"), "w") as f:
        json.dump(ev, f, indent=1, sort_keys=True, default=str)
    print("%s: %d runs, %d non-trivial (%d distinct), %d known-finding hits, %d new violation class(es), %.1fs"
          % (prop, agg["n"], agg["nontrivial"], len(isigs), sum(known_hits.values()), len(new_classes), wall), flush=True)
    if cov["probes_zero"]:
        print("warning: probes stuck at zero: %s" % cov["probes_zero"])
    return exit_code


def _kill_pool(ex):
    for p in list(getattr(ex, "_processes", {}).values()):
        try:
            p.kill()
        except Exception:
            pass
