"""Shared radio medium with explicit fault plans and a sniffer trace (DESIGN.md 2.4)."""


def _idx(r):
    return r.idx


class FaultPlan:
    """A list of explicit rules.  A rule is a dict; every key that is present must match:

      n      ordinal of the transmission on the air (0-based, whole run)
      src    name of the transmitting radio
      dst    name of the receiving radio (rule applies to that receiver only)
      ack    True: only auto-ACK packets, False: only non-ACK packets
      nth    index among the transmissions that match (src, ack) - counted per (src, ack) pair
      ptype  network header type byte of the payload (payload[6]); pres: reserved byte (payload[7]); pto: header to_node field
      t0,t1  window on the start time of the transmission (ns)
      what   "drop" (default) | "flip" (with "bits": [bit indexes into the payload])

    Rules are data: they are generated up-front from the `air` PRNG stream, written into the
    scenario, edited by the minimiser and replayed verbatim.
    """

    def __init__(self, rules=None):
        self.rules = list(rules or [])
        self.fired = {}
        self.fired_rules = set()

    def decide(self, rec, rx_name):
        for i, r in enumerate(self.rules):
            if "n" in r and r["n"] != rec["n"]:
                continue
            if "src" in r and r["src"] != rec["src"]:
                continue
            if "dst" in r and r["dst"] != rx_name:
                continue
            if "ack" in r and bool(r["ack"]) != rec["ack"]:
                continue
            if "nth" in r and r["nth"] != rec["nth"][1 if rec["ack"] else 0]:
                continue
            if "ptype" in r and (len(rec["data"]) < 8 or rec["data"][6] != r["ptype"]):
                continue
            if "pres" in r and (len(rec["data"]) < 8 or rec["data"][7] != r["pres"]):
                continue
            if "pto" in r and (len(rec["data"]) < 8 or (rec["data"][2] | (rec["data"][3] << 8)) != r["pto"]):
                continue
            if "t0" in r and rec["t0"] < r["t0"]:
                continue
            if "t1" in r and rec["t0"] >= r["t1"]:
                continue
            what = r.get("what", "drop")
            kind = ("ack_" if rec["ack"] else "pkt_") + what
            self.fired[kind] = self.fired.get(kind, 0) + 1
            self.fired_rules.add(i)
            return r
        return None


class Air:
    def __init__(self, sim, plan=None, keep_trace=True):
        self.sim = sim
        self.radios = []
        self.by_name = {}
        self.active = []        # transmissions currently on the air
        self.n = 0
        self.plan = plan or FaultPlan()
        self.keep_trace = keep_trace
        self.trace = []
        self.ack_waiters = []
        self.addr_index = {}    # address bytes -> list of radios
        self.indexed = {}       # radio -> list of address keys currently indexed
        self.dirty = {}         # insertion-ordered (never iterate a set of objects)
        self.nth = {}           # src name -> [non-ack count, ack count]
        self.collisions = 0
        self.hook = None        # optional callback(rec) after delivery
        self.blackout = False   # harness-switched fault: every packet is lost while set
        self.mute = set()       # harness-switched fault: names of radios whose transmissions are lost

    # ------------------------------------------------------------------ registry
    def register(self, radio):
        radio.idx = len(self.radios)
        self.radios.append(radio)
        self.by_name[radio.name] = radio
        self.dirty[radio] = True

    def addr_changed(self, radio):
        self.dirty[radio] = True

    def rx_changed(self, radio):
        pass

    def _refresh(self):
        for r in list(self.dirty):
            for k in self.indexed.get(r, ()):
                lst = self.addr_index.get(k)
                if lst is not None:
                    try:
                        lst.remove(r)
                    except ValueError:
                        pass
                    if not lst:
                        del self.addr_index[k]
            keys = list(r.listen_addrs().keys())
            self.indexed[r] = keys
            for k in keys:
                self.addr_index.setdefault(k, []).append(r)
        self.dirty.clear()

    def rpd(self, radio):
        ch = radio.r[5]
        for t in self.active:
            if t["ch"] == ch and t["srcobj"] is not radio:
                return 1
        for o in self.radios:
            if o is not radio and o.carrier and o.ce and o.pwr_up and not o.prim_rx and o.r[5] == ch:
                return 1
        return 0

    # ------------------------------------------------------------------ transmission
    def transmit(self, radio, pkt, dur):
        now = self.sim.now
        cnt = self.nth.setdefault(radio.name, [0, 0])
        idx = 1 if pkt["ack"] else 0
        rec = {"n": self.n, "src": radio.name, "srcobj": radio, "t0": now, "t1": now + dur, "ch": radio.r[5],
               "rate": radio.rate, "ack": bool(pkt["ack"]), "addr": pkt["addr"], "pid": pkt["pid"],
               "noack": pkt["noack"], "esb": pkt["esb"], "data": pkt["data"], "hit": False, "rx": [],
               "nth": (cnt[0], cnt[1]), "pkt": pkt}
        cnt[idx] += 1
        self.n += 1
        for o in self.active:
            if o["ch"] == rec["ch"] and o["t1"] > now:
                o["hit"] = rec["hit"] = True
        self.active.append(rec)
        if self.keep_trace:
            self.trace.append(rec)
        self.sim.log("air_ack" if rec["ack"] else "air_tx", radio.name, pkt["addr"], pkt["pid"], pkt["data"])
        self.sim.after(dur, self._finish, rec)

    def _finish(self, rec):
        self.active.remove(rec)
        pkt = rec["pkt"]
        if rec["src"] in self.mute:
            # explicit harness-switched fault: everything this radio transmits is lost (its receiver keeps working)
            self.plan.fired["mute"] = self.plan.fired.get("mute", 0) + 1
            rec["rx"].append(("*", "fault:mute"))
            self.sim.log("fault", rec["src"], "mute", rec["n"])
            return
        if self.blackout:
            # explicit fault: nothing transmitted during a blackout reaches anybody
            self.plan.fired["blackout"] = self.plan.fired.get("blackout", 0) + 1
            rec["rx"].append(("*", "fault:blackout"))
            self.sim.log("fault", rec["src"], "blackout", rec["n"])
            return
        if rec["hit"]:
            self.collisions += 1
            self.sim.count("collision")
            self.sim.log("collision", rec["src"], rec["n"])
            rec["rx"].append(("*", "collision"))
            return
        if rec["ack"]:
            for r in sorted(self.ack_waiters, key=_idx):
                if r is rec["srcobj"] or r.r[5] != rec["ch"] or r.rate != rec["rate"] or not r.pwr_up:
                    continue
                rule = self.plan.decide(rec, r.name)
                if rule is not None:
                    rec["rx"].append((r.name, "fault:" + rule.get("what", "drop")))
                    self.sim.log("fault", r.name, "ack", rec["n"])
                    continue
                ok = r.on_ack(pkt, rec["t0"], rec["t1"])
                rec["rx"].append((r.name, "ack_ok" if ok else "ack_ignored"))
        else:
            if self.dirty:
                self._refresh()
            cands = self.addr_index.get(pkt["addr"])
            if cands:
                for r in sorted(cands, key=_idx):
                    if r is rec["srcobj"] or r.r[5] != rec["ch"] or r.rate != rec["rate"]:
                        continue
                    if r.rx_since is None or r.rx_since > rec["t0"]:
                        rec["rx"].append((r.name, "not_listening"))
                        self.sim.count("rx_not_listening")
                        continue
                    rule = self.plan.decide(rec, r.name)
                    corrupt = None
                    if rule is not None:
                        what = rule.get("what", "drop")
                        if what == "flip":
                            b = bytearray(pkt["data"])
                            for bit in rule.get("bits", ()):
                                if bit < 8 * len(b):
                                    b[bit // 8] ^= 0x80 >> (bit % 8)
                            if r.crclen:
                                # hardware CRC turns corruption into a loss
                                rec["rx"].append((r.name, "fault:flip->crc_drop"))
                                self.sim.log("fault", r.name, "flipdrop", rec["n"])
                                continue
                            corrupt = bytes(b)
                        else:
                            rec["rx"].append((r.name, "fault:drop"))
                            self.sim.log("fault", r.name, "pkt", rec["n"])
                            continue
                    res = r.on_packet(pkt, corrupt)
                    rec["rx"].append((r.name, res))
        if self.hook is not None:
            self.hook(rec)

    # ------------------------------------------------------------------ helpers for oracles
    def idle(self):
        return not self.active

    def public_trace(self):
        out = []
        for t in self.trace:
            out.append({"n": t["n"], "src": t["src"], "t0": t["t0"], "t1": t["t1"], "ch": t["ch"], "ack": t["ack"],
                        "addr": t["addr"].hex(), "pid": t["pid"], "noack": t["noack"], "data": t["data"].hex(),
                        "hit": t["hit"], "rx": [list(x) for x in t["rx"]]})
        return out
